# Table read by gen_manifest.py. Keep in step with DESIGN.md section 5.
_T = "trusted base: go/types, go/ssa (x/tools v0.29.0), the rule tables in /verif/checker/rules; assumes the standard library, protobuf runtime and go-kms-wrapping behave as documented"

CLAIMED["C05"] = (
    "SSA guard-cut (must-pass-through) reachability with constant-phi sensitivity + loop-escape check",
    "Decides, for every path of tls.GenerateServerCertificates and of its verifier, that loading the roots, minting a certificate, copying client state and returning success are reachable only over the success edge of signature verification against a record loaded for the request (or the local SkipVerification flag), that a failing record neither authorises nor ends the node-ID search, and that the verifier checks nonce and client-state signatures under the record's key. Structural necessary conditions; Ed25519 and storage contents are not modelled.",
    _T, "DESIGN.md 5/C05")

_PENDING = "check not built yet in this round (design in DESIGN.md section 5); will be claimed once its rules are exact on the repaired tree"
for _p in ["C01","C02","C03","C04","C06","C07","C08","C09","C10","C11","C12","C13","C14","C15","C16","C17","C18","C19","C20"]:
    if _p not in CLAIMED:
        NOT_APPLICABLE[_p] = _PENDING
