# Table read by gen_manifest.py. Keep in step with DESIGN.md section 5.
_T = "trusted base: go/types, go/ssa (x/tools v0.29.0), the rule tables in /verif/checker/rules; assumes the standard library, protobuf runtime and go-kms-wrapping behave as documented"

CLAIMED["C05"] = (
    "SSA guard-cut (must-pass-through) reachability with constant-phi sensitivity + loop-escape check",
    "Decides, for every path of tls.GenerateServerCertificates and of its verifier, that loading the roots, minting a certificate, copying client state and returning success are reachable only over the success edge of signature verification against a record loaded for the request (or the local SkipVerification flag), that a failing record neither authorises nor ends the node-ID search, and that the verifier checks nonce and client-state signatures under the record's key. Structural necessary conditions; Ed25519 and storage contents are not modelled.",
    _T, "DESIGN.md 5/C05")

CLAIMED["C01"] = (
    "SSA guard-cut reachability over access-path byte-equality guards + value-provenance of the record used as key source + call-graph who-may-call/effects + error-wrapping verb check",
    "Decides, for every path of registration.FetchNodeCredentials and AuthorizeNode: credentials are encrypted/returned only after validation succeeded and the three bindings (nonce, certificate key, encryption key) between the stored record K and the validated request R were compared equal; K comes only from a load by R's key ID or from the authorisation/token helpers called with R; the wrapped-registration branch authorises only after decrypt success and nonce/key equality; the node-led branch performs no write; only the authorisation helper writes node records and only reviewed callers reach it; AuthorizeNode authorises only for a 32-byte nonce and an ErrNotFound load; ErrNotFound survives every wrapping on the load path. Necessary structural conditions, not the history-level behaviour.",
    _T, "DESIGN.md 5/C01")
CLAIMED["C03"] = (
    "SSA guard-cut reachability + linear time-form normalisation of the validity-window comparisons + call-graph effect dominance",
    "Decides, for every path of the request validator, that success requires presence checks, key-type equalities, unmarshalling of the signed bytes and ed25519.Verify under the key named inside those bytes over exactly (Bundle, BundleSignature); that the only time comparisons are NotBefore+nbSkew>now and NotAfter+naSkew<now on one clock reading; that in FetchNodeCredentials/AuthorizeNode no storage, wrapper, decrypt or minting call is reachable before validation succeeded; and that created requests sign the bundle they carry with window [now, now+DefaultFetchCredentialsLifetime]. Ed25519 and bit-level mutation outcomes are not decided.",
    _T, "DESIGN.md 5/C03")

CLAIMED["C02"] = (
    "SSA guard-cut reachability in the VerifyConnection and GetConfigForClient closures and in Accept + literal-field constraints on tls.Config + block-exclusivity and store-on-every-path checks for the verification waiver + C05's gate",
    "Decides, for every path: the VerifyConnection closure accepts only with a peer certificate that verified against the caller's pool and matches the expected key, or under the fetch-only waiver; that waiver is created only under the fetch-prefix test and no path joins the fetch and authentication branches; the request decoded from the peer's bytes reaches the certificate function only with SkipVerification overwritten by false; the TLS configuration pins the request's certificate key; Accept returns a connection only after a successful handshake and never on the fetch protocol; NextProtos is the tested loop element. Plus C05's gate. crypto/tls and crypto/x509 are trusted; histories are not decided.",
    _T + "; assumption A3 (base TLS configuration lists no library-prefixed protocol)", "DESIGN.md 5/C02")
CLAIMED["C06"] = (
    "SSA guard-cut reachability with time-form normalisation + field-store allow-list/uses-of-secret check in the token creator + sibling agreement (ID derivation, AAD operands)",
    "Decides, for every path of the token validator, that authorisation happens only after: loading the entry under the ID derived from both token halves, non-nil/non-zero creation time, the expiry test creation+maxLifetime vs now, successful removal of that entry, and the existing-record test; that the creator persists only creation time, state and derived ID and uses the HMAC key half only as key; that loading derives the creation time from the (sealed) marshalled bytes with matching AAD. The wrapper-configured-but-unsealed-record path is a listed known finding (D10). Concurrency of token use and HMAC strength are not decided.",
    _T, "DESIGN.md 5/C06")
CLAIMED["C10"] = (
    "SSA guard-cut reachability with nil-phi sensitivity + value provenance of records, option list and reply operands + call-graph write effects",
    "Decides, for every path of rotation.RotateNodeCredentials, that AuthorizeNode is reached only after DecryptMessage of the request payload succeeded under a record loaded for the identified node, with the decrypted inner request, carrying over that record's state; that the reply is EncryptMessage(FetchNodeCredentials(inner), clone of that record) and encryption never uses a previous key; that AuthorizeNode keeps its refusals; and that nothing else writes storage or node-record fields. Decryption semantics and replay histories are not decided.",
    _T, "DESIGN.md 5/C10")

CLAIMED["C04"] = (
    "composite-literal / field-flow constraints on x509 templates and response messages + SSA guard-cut reachability on the node side + store-then-no-write ordering",
    "Decides the binding clauses of honest enrollment for every path: the node leaf template is a non-CA client-auth certificate named by, and certifying, the key derived from the validated request, with the issuing root's validity, minted once per {current,next} loaded root with parent and signer from one SigningParams(); the fetch response is built from the stored record (nonce, bundles, server key), encrypted under it and signed over the carried ciphertext by the current root; the record is not modified after Store; the node accepts a response only after successful decryption under its own key and nonce equality; the server key is 32 checked random bytes. Liveness ('always completes') and AEAD/X25519 semantics are not decided.",
    _T, "DESIGN.md 5/C04")
CLAIMED["C12"] = (
    "must-pass-through (block-avoiding guard-cut) of seal stores per sensitive field + phi-edge feasibility of the stored object + Encrypt/Decrypt AAD agreement tables + who-may-call Storage.Store",
    "Decides, for every path of the four typed Store methods with a wrapper configured, that each field of a frozen sensitive-field table (with a completeness pass) is replaced by Marshal(Encrypt(field, AAD)) or empty or cleared before Storage.Store, that only a clone is sealed and stored, that Store/Load agree per field on a record-bound AAD and on the sealed set, that Load refuses sealed records without a wrapper, and that nothing else invokes Storage.Store. Three fields are listed known findings (D8a, D8b, D9). AEAD behaviour of the wrapper (wrong wrapper / transplant fails) is not decided.",
    _T, "DESIGN.md 5/C12")
CLAIMED["C13"] = (
    "call-graph-computed target set of storage-reaching callees + per-call-site error-discipline check (guard-cut from the failure edge, tolerated ErrNotFound / reload idioms) + success-implies-Store guard-cut + who-may-Remove",
    "Decides, for all 40+ call sites that may reach a Storage method in the non-back-end packages, that the error is tested or returned and that no success return is reachable from its failure edge except over errors.Is(ErrNotFound) or a successful reload; that each creator returns a fresh payload successfully only after payload.Store succeeded or WithSkipStorage; that the fetch response comes from a persisted record; that a token is removed before authorising; and that Storage.Remove touches only the loaded token and the roots under reinitialisation. Back-end atomicity and multi-fault sequences are not decided.",
    _T, "DESIGN.md 5/C13")

CLAIMED["C08"] = (
    "abstract execution of the loop-free decision function over the finite order-type abstraction (85 states, exhaustive) against the property's table + linear time-form propagation of the minted windows + literal/field-flow constraints + guard-cut",
    "Decides the shape of root rotation: the decision function's leaf for every nil combination and every ordering (<,=,>) of the four stored instants against now agrees with the property's table (ties accept either refinement; three safety post-conditions everywhere); minted windows have the forms now+nbSkew / now+lifetime+naSkew, shifted at both ends by half of the current root's remaining life only when minting next, and stored timestamps are the shifted ones; minted roots are self-signed CAs from one key pair; the result is wired carried-or-new current / new next, the no-change outcome writes nothing, the stored object is the returned one; reinitialisation removes first; Store refuses incomplete sets. That current is valid 'at that moment' in wall-clock terms and multi-call histories are not decided.",
    _T, "DESIGN.md 5/C08")
CLAIMED["C09"] = (
    "the four structural premises of the continuity theorem: exhaustive decision table leaves, shift form, per-root leaf validity (C04), and guard-cut of the four chain filters on both TLS sides",
    "Decides only the premises, each necessary: every single-root outcome of the decision table carries an existing root (no trust reset); the successor window starts at the midpoint of the carried root's remaining life; nodes get one certificate per server root with the root's own validity; client and server use a bundle only if leaf and CA are inside their validity at one clock reading, with exactly those four comparisons. The theorem itself (cadence bounds imply a valid, trusted chain at every instant) is real-time arithmetic and is NOT decided.",
    _T, "DESIGN.md 5/C09")

CLAIMED["C11"] = (
    "sibling-agreement tables (AEAD key/key-ID/AAD operands of EncryptMessage vs decryptWithKey; argument roles of the two X25519 key producers and previous-key recorders) + SSA guard-cut of the fallback discipline + panic-site enumeration with a dependency precondition summary",
    "Decides that encryption and decryption configure the AEAD from one producer pair and bind AAD to the key ID under the same condition; that the previous key is tried only after the current key failed and only if present, success is reported only after an attempt succeeded, and the result is written only from decrypted plaintext; that node side and server side pass (own private, peer public) in matching roles and record/read the previous key consistently; and that no panic site (including aead.Wrapper.Decrypt's unchecked Ciphertext[:12]) is reachable from DecryptMessage without its guard. Round-trip equality, AEAD authenticity and X25519 algebra are not decided.",
    _T, "DESIGN.md 5/C11")
CLAIMED["C14"] = (
    "panic-site enumeration over the call-graph reach set of InterceptingListener.Accept with guard-cut / range / array / container-invariant discharges and dependency precondition summaries + error-classification of Accept's returns + who-may-close",
    "Decides that every index, slice, unchecked type assertion, integer division and explicit panic in the ~78 module functions reachable from Accept (closures, listener function fields, module storage back ends) is discharged on every path, that remote-controlled blobs reach aead.Wrapper.Decrypt only behind its length precondition (one listed known finding, D11, for the application-supplied registration wrapper), that after a connection was accepted Accept returns only nil or temperror-wrapped errors with a nil connection, that the failed connection is closed, and that nothing but InterceptingListener.Close closes the base listener. Nil dereferences, panics inside the standard library / protobuf / application callbacks, and liveness ('an honest node still connects') are not decided.",
    _T, "DESIGN.md 5/C14")
CLAIMED["C20"] = (
    "encoder/decoder agreement table extracted from the Sprintf format and the decoder's strip calls + panic-site enumeration + constant arithmetic on the chunk budget",
    "Decides that the decoder removes exactly what the encoder's format writes for every chunk index (delimiter-based cut at the encoder's delimiter, which an unsigned decimal counter cannot contain; a fixed-width strip is accepted only with an index bound), that entries start with the prefix parameter and carry a slice of the value, that no slice/index/division in either function can panic (clamped bounds; constant prefixes at every call site), and that B + digits + delimiter <= 255 for every index a ClientHello-sized payload can need. Content equality of the round trip for every payload is not decided.",
    _T, "DESIGN.md 5/C20")

CLAIMED["C15"] = (
    "slice alias/append analysis of the listener's shared option slice (capacity-exact store or no reachable append, through phis, re-slices and variadic forwarding) + write-set checks on listener fields and package variables + allocation-site dominance for per-connection state",
    "Decides the structural isolation conditions: the option slice stored in the listener is capacity-exact so that each of the (currently 5) append sites on its aliases reallocates instead of writing shared memory; no listener field is written after construction; the per-connection ClientInfo is allocated after each successful base accept and escapes only to that handshake's callback; no package-level state is written in the handshake packages. Races inside application storage, fairness, and equality with a sequential run are not decided.",
    _T, "DESIGN.md 5/C15")
CLAIMED["C16"] = (
    "value-provenance of the reported protocol list (zero-length start, single append of the range element, only the certificate-preference filter) + guard-cut for client state + defensive-copy shape checks + C05's gate",
    "Decides that the protocol list reported for a connection is built by appending each offered entry, in order, to an empty slice, skipping only certificate-preference entries; that client state is taken from the certificate function's response on its success edge (and is set there only behind C05's gate); that Accept hands exactly this connection's metadata to NewConn; and that NewConn/ClientNextProtos copy. Equality of client state for every structure (protobuf round trip) is not decided.",
    _T, "DESIGN.md 5/C16")

CLAIMED["C17"] = (
    "SSA guard-cut of the routing guards + registry-key provenance of IngressConn receivers + exactly-once ownership dataflow of accepted connections + deferred-close / cancel-before-return shape + registry content invariant for type assertions",
    "Decides that a connection reaches a sub-listener taken from the registry by client protocol or by the authenticated non-specific name only after ContainsKnownAlpnProto(negotiated), not the fetch prefix and a completed handshake, and the unauthenticated sub-listener only otherwise; that every accepted connection is ingressed to exactly one sub-listener or closed exactly once on every path; that stopping closes all sub-listeners and cancels the context; that the multiplexing Accept strips to *tls.Conn only when nativeConns is set and false; that the registry holds only string -> *MultiplexingListener. Connections in flight at close and assumption A3 are not decided.",
    _T + "; assumption A3", "DESIGN.md 5/C17")
CLAIMED["C18"] = (
    "forward must lock-state dataflow (defer-aware, sync.Once.Do closures inlined) over every MultiplexingListener function + guard-cut of the closed-flag test + exactly-once ownership dataflow of connections through Accept, IngressConn, the ingress goroutine and the drain goroutine",
    "Decides the static lock and ownership discipline that the schedule property needs: every access to closed is under the mutex in a sufficient mode; every send on incoming happens under the read lock after testing closed in that same locked region; the channel is closed once, under the write lock, after the flag is set; Close starts the drain before taking the write lock; lock state is balanced at every return; a received connection is returned or closed exactly once, an ingressed one is sent or closed, drained ones are closed; closure is reported as net.ErrClosed. Deadlock freedom and exactly-once delivery over all schedules, and data-race freedom beyond this discipline, are NOT decided.",
    _T, "DESIGN.md 5/C18")

CLAIMED["C07"] = (
    "value-provenance of the per-connection nonce, trust pool and returned connection + SSA guard-cut (nonce fill checks, handshake success, fetch success) + loop-escape check + sentinel-propagation check + the four chain filters",
    "Decides the safety half: the client's verification name is the base64 of a fresh checked 32-byte nonce that is also the request nonce, on every client configuration; the trust pool is a fresh pool holding only CA certificates of the node's own stored bundles; Dial returns only a handshaken tls.Client over one of those configurations, tries every configuration, and never lets the unverified fetch connection/configuration escape; ErrNotAuthorized reaches the caller as the sentinel; certificates are stored only after a successful fetch. That a registered node always connects (liveness) and crypto/tls internals are not decided.",
    _T, "DESIGN.md 5/C07")
CLAIMED["C19"] = (
    "type-switch table extraction and cross-back-end agreement + guard-cut of validation before value operations + lock-state dataflow over the in-memory back end's radix-tree calls + key origin-set (data-dependence) check + store-once failure-edge cut",
    "Decides the structural map conditions: both back ends map exactly the four admitted message types to equal, distinct, prefix-free sub-paths and list the same types; Store/Load/Remove validate first and use the message's own ID; every radix-tree read/write runs under the embedded mutex in a sufficient mode; absence is the ErrNotFound sentinel; the store/load/remove entry key depends on exactly (sub-path, id) and back-end constants; the store-once back end writes a node record only after a failed load of that ID. Map equivalence over operation sequences, file-system semantics and file back-end concurrency are not decided.",
    _T, "DESIGN.md 5/C19")

_PENDING = "check not built yet in this round (design in DESIGN.md section 5); will be claimed once its rules are exact on the repaired tree"
for _p in ["C01","C02","C03","C04","C06","C07","C08","C09","C10","C11","C12","C13","C14","C15","C16","C17","C18","C19","C20"]:
    if _p not in CLAIMED:
        NOT_APPLICABLE[_p] = _PENDING
