#!/usr/bin/env python3
"""Regenerates /verif/MANIFEST.json from the table below (kept by hand)."""
import json, os, subprocess
HERE = os.path.dirname(os.path.abspath(__file__))
ENV = "GOFLAGS=-mod=mod GOPROXY=off GOSUMDB=off GOTOOLCHAIN=local GOWORK=off"
BASE = json.load(open("/root/.vp/BASELINE.json"))["cmd"]

# id -> (technique, level text, level note, design ref)
CLAIMED = {}
NOT_APPLICABLE = {}
exec(open(os.path.join(HERE, "manifest_table.py")).read())

props = [json.loads(l)["id"] for l in open(os.path.join(HERE, "properties.jsonl"))]
checks = []
for pid in props:
    if pid in CLAIMED:
        tech, text, note, ref = CLAIMED[pid]
        checks.append({
            "property_id": pid,
            "quick_cmd": f"./check.sh {pid} quick",
            "thorough_cmd": f"./check.sh {pid} thorough",
            "evidence_file": f"/verif/evidence/{pid}.json",
            "replay_cmd_template": f"./check.sh {pid} quick  # re-evaluates every obligation on the current tree; the obligation in {{path}} is identified by its rule+construct key",
            "engine": "nechk",
            "level_claimed": {"category": "other", "text": text, "design_ref": ref},
            "level_note": note,
            "technique": tech + " + module call-graph reachability of package-level mutable state from the anchored functions (rule R-" + pid + ".G)",
        })
na = [{"property_id": pid, "reason": NOT_APPLICABLE[pid]} for pid in props if pid not in CLAIMED]
for pid in props:
    assert pid in CLAIMED or pid in NOT_APPLICABLE, pid
m = {
    "version": 1,
    "setup_cmd": f"cd /verif/checker && {ENV} go build -o /verif/bin/nechk ./cmd/nechk",
    "hooks": {
        "guard": "verif",
        "enable": "none needed: static analysis reads the source; no instrumentation is compiled into /repo",
        "baseline_off_cmd": BASE,
        "source_commits": [],
        "add_only": True,
    },
    "engines": [{
        "name": "nechk",
        "path": "/verif/checker",
        "serves_properties": [c["property_id"] for c in checks],
        "kind_free_text": "repository-specific static analyser: go/packages type-checked program + go/ssa; guard-cut (must-pass-through) reachability with constant-phi sensitivity, access-path descriptors, call-graph who-may-call, lock-state and ownership dataflow, literal/field-flow constraints, decision-table extraction, sibling-agreement tables",
    }],
    "checks": checks,
    "not_applicable": na,
    "notes": "All claims are level 'other': each check decides structural necessary conditions of its property for every path of the named functions of /repo's current source; it does not decide the behaviour itself. Known findings: /verif/KNOWN_FINDINGS.txt. Design: /verif/DESIGN.md.",
}
json.dump(m, open(os.path.join(HERE, "MANIFEST.json"), "w"), indent=1)
print("claimed", len(checks), "not_applicable", len(na))
