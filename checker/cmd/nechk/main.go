// Command nechk decides the nodeenrollment properties by static analysis of
// the repository's current source.
package main

import (
	"flag"
	"fmt"
	"os"
	"runtime/debug"
	"sort"
	"strconv"
	"strings"

	"nechk/core"
	"nechk/rules"
)

func main() {
	prop := flag.String("property", "", "property id (C01..C20)")
	tier := flag.String("tier", "quick", "quick|thorough")
	repo := flag.String("repo", "/repo", "repository root")
	verif := flag.String("verif", "/verif", "verification root (evidence, known findings)")
	goos := flag.String("goos", "", "GOOS for the load")
	goarch := flag.String("goarch", "", "GOARCH for the load")
	noEvidence := flag.Bool("no-evidence", false, "do not write evidence (used for extra build configurations)")
	noReplay := flag.Bool("no-replay", false, "do not write replay files")
	list := flag.Bool("list", false, "list properties with rule sets")
	extraFile := flag.String("extra-file", "", "file whose lines are recorded in the evidence as config_runs (thorough tier)")
	flag.Parse()
	if *list {
		var ids []string
		for id := range rules.All {
			ids = append(ids, id)
		}
		sort.Strings(ids)
		fmt.Println(strings.Join(ids, " "))
		return
	}
	rs, ok := rules.All[*prop]
	if !ok {
		fmt.Fprintf(os.Stderr, "unknown property %q\n", *prop)
		os.Exit(2)
	}
	seed, _ := strconv.ParseInt(os.Getenv("VERIF_SEED"), 10, 64)
	rep := core.NewReport(*prop, *tier)
	rep.NoReplay = *noReplay
	p, err := core.Load(*repo, *goos, *goarch)
	if err != nil {
		// a tree that does not load cannot be vouched for
		fmt.Println("load failed:", err)
		rep.Unk("load", "repository", "", err.Error())
		os.Exit(rep.Finish(nil, *verif, seed, !*noEvidence, nil))
	}
	func() {
		defer func() {
			if e := recover(); e != nil {
				rep.Unk("engine", "panic", "", fmt.Sprint(e)+" :: "+string(debug.Stack()))
			}
		}()
		core.CurProg = p
		ctx := &rules.Ctx{P: p, R: rep, Tier: *tier}
		rs(ctx)
		rules.NoSharedState(ctx, *prop)
		rules.SharedUtilities(ctx, *prop)
	}()
	var extra map[string]any
	if *extraFile != "" {
		if b, err := os.ReadFile(*extraFile); err == nil {
			cfgs, muts := []string{}, []string{}
			killed := 0
			for _, l := range strings.Split(strings.TrimSpace(string(b)), "\n") {
				if strings.HasPrefix(l, "mutant: ") {
					muts = append(muts, strings.TrimPrefix(l, "mutant: "))
					if strings.Contains(l, ": killed") {
						killed++
					}
				} else if l != "" {
					cfgs = append(cfgs, l)
				}
			}
			extra = map[string]any{"config_runs": cfgs, "mutants": muts, "mutants_killed": killed, "mutants_total": len(muts),
				"mutants_note": "seeded single-site defects (/verif/mutants) applied to scratch copies; reported only, never part of the exit status"}
		}
	}
	os.Exit(rep.Finish(p, *verif, seed, !*noEvidence, extra))
}
