package core

import (
	"go/types"
	"strings"

	"golang.org/x/tools/go/ssa"
)

// SigKey renders a signature by its parameter and result types only (names dropped).
func SigKey(sig *types.Signature) string {
	var sb strings.Builder
	tuple := func(t *types.Tuple) {
		for i := 0; i < t.Len(); i++ {
			if i > 0 {
				sb.WriteString(",")
			}
			sb.WriteString(types.TypeString(t.At(i).Type(), nil))
		}
	}
	sb.WriteString("(")
	tuple(sig.Params())
	if sig.Variadic() {
		sb.WriteString("...")
	}
	sb.WriteString(")->(")
	tuple(sig.Results())
	sb.WriteString(")")
	return sb.String()
}

// anchorSigs records, for the unexported functions rules anchor in by name, the
// signature they have on the tree the rules were written against. When such a
// function is merely renamed, the anchor is re-resolved as the unique unexported
// function (same package, same receiver type) with that signature.
var anchorSigs = map[string]string{
	"|decryptWithKey":       "(context.Context,string,[]byte,[]byte,google.golang.org/protobuf/proto.Message)->(error)",
	"tls|standardTlsConfig": "(context.Context,*crypto/x509.CertPool,[]github.com/hashicorp/nodeenrollment.Option...)->(*crypto/tls.Config,error)",
	"protocol|attemptFetch": "(context.Context,net.Conn,*github.com/hashicorp/nodeenrollment/types.NodeCredentials,[]github.com/hashicorp/nodeenrollment.Option...)->(*github.com/hashicorp/nodeenrollment/types.FetchNodeCredentialsResponse,error)",
	"protocol|(*InterceptingListener).getTlsConfigForClient": "(*github.com/hashicorp/nodeenrollment/protocol.ClientInfo)->(func(*crypto/tls.ClientHelloInfo) (*crypto/tls.Config, error))",
	"net|(*MultiplexingListener).drainConnections":           "()->()",
	"storage/inmem|(*Storage).storeValue":                    "(context.Context,string,string,google.golang.org/protobuf/proto.Message)->(error)",
	"storage/inmem|(*Storage).loadValue":                     "(context.Context,string,string,google.golang.org/protobuf/proto.Message)->(error)",
	"storage/inmem|(*Storage).removeValue":                   "(context.Context,string,string)->(error)",
	"storage/inmem|(*Storage).listValues":                    "(context.Context,string)->([]string,error)",
	"storage/file|(*Storage).storeValue":                     "(context.Context,string,string,google.golang.org/protobuf/proto.Message)->(error)",
	"storage/file|(*Storage).loadValue":                      "(context.Context,string,string,google.golang.org/protobuf/proto.Message)->(error)",
	"storage/file|(*Storage).removeValue":                    "(context.Context,string,string)->(error)",
	"storage/file|(*Storage).listValues":                     "(context.Context,string)->([]string,error)",
}

// FuncRenamed resolves an unexported anchor that no longer exists under its
// recorded name by its recorded signature; ok is false unless exactly one
// candidate exists.
func (p *Prog) FuncRenamed(rel, name string) (*ssa.Function, bool) {
	want, have := anchorSigs[rel+"|"+name]
	if !have {
		return nil, false
	}
	pkg := p.Pkg(rel)
	if pkg == nil {
		return nil, false
	}
	recv := ""
	if strings.HasPrefix(name, "(") {
		recv = name[1:strings.Index(name, ").")]
	}
	known := map[string]bool{}
	for k := range anchorSigs {
		if strings.HasPrefix(k, rel+"|") {
			known[k[len(rel)+1:]] = true
		}
	}
	var cands []*ssa.Function
	for _, fn := range p.ModuleFuncs() {
		if fn.Pkg != pkg || fn.Parent() != nil || fn.Synthetic != "" || fn.Blocks == nil {
			continue
		}
		nm := fn.Name()
		if nm == "" || (nm[0] >= 'A' && nm[0] <= 'Z') {
			continue
		}
		r := ""
		if rv := fn.Signature.Recv(); rv != nil {
			t := rv.Type()
			star := ""
			if pt, ok := t.(*types.Pointer); ok {
				t, star = pt.Elem(), "*"
			}
			if nt, ok := t.(*types.Named); ok {
				r = star + nt.Obj().Name()
			}
		}
		if r != recv {
			continue
		}
		full := nm
		if r != "" {
			full = "(" + r + ")." + nm
		}
		if known[full] {
			continue // another anchor that still exists under its own name
		}
		if SigKey(fn.Signature) == want {
			cands = append(cands, fn)
		}
	}
	if len(cands) == 1 {
		return cands[0], true
	}
	// several helpers share the signature (storeValue / loadValue): the one the
	// corresponding exported method calls
	if caller, have := anchorCaller[rel+"|"+name]; have && len(cands) > 1 {
		var picked []*ssa.Function
		for _, cand := range cands {
			for _, fn := range p.ModuleFuncs() {
				if fn.Pkg != pkg || fn.Name() != caller || fn.Blocks == nil {
					continue
				}
				for _, b := range fn.Blocks {
					for _, in := range b.Instrs {
						if ci, ok := in.(ssa.CallInstruction); ok && ci.Common().StaticCallee() == cand {
							picked = append(picked, cand)
						}
					}
				}
			}
		}
		if len(picked) == 1 {
			return picked[0], true
		}
	}
	return nil, false
}

// anchorCaller names, for anchors whose signature is shared with a sibling, the
// exported method of the same package that calls them.
var anchorCaller = map[string]string{
	"storage/inmem|(*Storage).storeValue":  "Store",
	"storage/inmem|(*Storage).loadValue":   "Load",
	"storage/inmem|(*Storage).removeValue": "Remove",
	"storage/inmem|(*Storage).listValues":  "List",
	"storage/file|(*Storage).storeValue":   "Store",
	"storage/file|(*Storage).loadValue":    "Load",
	"storage/file|(*Storage).removeValue":  "Remove",
	"storage/file|(*Storage).listValues":   "List",
}
