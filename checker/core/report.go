package core

import (
	"bufio"
	"crypto/sha1"
	"encoding/hex"
	"encoding/json"
	"fmt"
	"os"
	"path/filepath"
	"sort"
	"strings"
	"time"
)

// Verdicts of one obligation.
const (
	Discharged = "discharged"
	Violated   = "violated"
	Undecided  = "undecided"
	Known      = "known"
)

// Obligation is one rule applied to one construct.
type Obligation struct {
	Rule      string   `json:"rule"`
	Construct string   `json:"construct"`
	Pos       string   `json:"pos,omitempty"`
	Verdict   string   `json:"verdict"`
	Detail    string   `json:"detail,omitempty"`
	Guards    []string `json:"guards,omitempty"`
	Witness   []string `json:"witness,omitempty"`
}

// Key identifies an obligation independent of position.
func (o Obligation) Key() string { return o.Rule + " " + o.Construct }

// Report collects the obligations of one property run.
type Report struct {
	Property   string
	Tier       string
	Obls       []Obligation
	RuleText   map[string]string
	Functions  map[string]bool
	CallSites  int
	Notes      []string
	Assume     []string
	NotDecided []string
	NoReplay   bool
	start      time.Time
}

// NewReport starts a report.
func NewReport(prop, tier string) *Report {
	return &Report{Property: prop, Tier: tier, RuleText: map[string]string{}, Functions: map[string]bool{}, start: time.Now()}
}

// Rule registers the text of a rule (shown in evidence).
func (r *Report) Rule(id, text string) { r.RuleText[id] = text }

// Fn records that a function was analysed.
func (r *Report) Fn(names ...string) {
	for _, n := range names {
		r.Functions[n] = true
	}
}

// Add records an obligation.
func (r *Report) Add(o Obligation) { r.Obls = append(r.Obls, o) }

// OK records a discharged obligation.
func (r *Report) OK(rule, construct, pos, detail string, guards ...string) {
	r.Add(Obligation{Rule: rule, Construct: construct, Pos: pos, Verdict: Discharged, Detail: detail, Guards: guards})
}

// Bad records a violated obligation.
func (r *Report) Bad(rule, construct, pos, detail string, witness ...string) {
	r.Add(Obligation{Rule: rule, Construct: construct, Pos: pos, Verdict: Violated, Detail: detail, Witness: witness})
}

// Unk records an undecided obligation (fails the check).
func (r *Report) Unk(rule, construct, pos, detail string) {
	r.Add(Obligation{Rule: rule, Construct: construct, Pos: pos, Verdict: Undecided, Detail: detail})
}

// Check records discharged when ok, else violated.
func (r *Report) Check(ok bool, rule, construct, pos, okDetail, badDetail string) {
	if ok {
		r.OK(rule, construct, pos, okDetail)
	} else {
		r.Bad(rule, construct, pos, badDetail)
	}
}

// CutOb evaluates a must-pass-through obligation: every path from fn's entry
// to the sinks crosses a success edge of g.
func (r *Report) CutOb(p *Prog, rule, construct, pos string, res CutResult, g Guard) {
	switch {
	case len(res.Instances) == 0 && res.Avoided == 0 && !res.Reachable:
		r.Add(Obligation{Rule: rule, Construct: construct, Pos: pos, Verdict: Undecided,
			Detail: "the sink is not reachable from the function entry at all (dead code or a misresolved anchor): nothing to decide for guard " + g.Name})
	case len(res.Instances) == 0 && res.Reachable:
		r.Add(Obligation{Rule: rule, Construct: construct, Pos: pos, Verdict: Violated,
			Detail: "no instance of guard " + g.Name + " found and the sink is reachable", Witness: res.Witness})
	case res.Reachable:
		r.Add(Obligation{Rule: rule, Construct: construct, Pos: pos, Verdict: Violated,
			Detail: "sink reachable without passing the success edge of " + g.Name, Guards: res.Instances, Witness: res.Witness})
	default:
		r.Add(Obligation{Rule: rule, Construct: construct, Pos: pos, Verdict: Discharged,
			Detail: "every path to the sink passes the success edge of " + g.Name, Guards: res.Instances})
	}
}

// KnownFinding is one line of KNOWN_FINDINGS.txt.
type KnownFinding struct {
	Kind      string // known | fixed
	Property  string
	Rule      string
	Construct string
	Text      string
}

// LoadKnown parses the committed known-findings file. Lines:
//
//	known: property=C12 rule=R-C12.1 construct=<construct> :: description
//	fixed: property=C05 <commit> <what failed>
func LoadKnown(path string) ([]KnownFinding, error) {
	f, err := os.Open(path)
	if err != nil {
		if os.IsNotExist(err) {
			return nil, nil
		}
		return nil, err
	}
	defer f.Close()
	var out []KnownFinding
	sc := bufio.NewScanner(f)
	for sc.Scan() {
		line := strings.TrimSpace(sc.Text())
		if line == "" || strings.HasPrefix(line, "#") {
			continue
		}
		switch {
		case strings.HasPrefix(line, "known:"):
			rest := strings.TrimSpace(strings.TrimPrefix(line, "known:"))
			desc := ""
			if i := strings.Index(rest, " :: "); i >= 0 {
				desc = rest[i+4:]
				rest = rest[:i]
			}
			kf := KnownFinding{Kind: "known", Text: desc}
			if i := strings.Index(rest, " construct="); i >= 0 {
				kf.Construct = strings.TrimSpace(rest[i+len(" construct="):])
				rest = rest[:i]
			}
			for _, tok := range strings.Fields(rest) {
				switch {
				case strings.HasPrefix(tok, "property="):
					kf.Property = strings.TrimPrefix(tok, "property=")
				case strings.HasPrefix(tok, "rule="):
					kf.Rule = strings.TrimPrefix(tok, "rule=")
				}
			}
			if kf.Property == "" || kf.Rule == "" || kf.Construct == "" {
				return nil, fmt.Errorf("malformed known-finding line: %q", line)
			}
			out = append(out, kf)
		case strings.HasPrefix(line, "fixed:"):
			out = append(out, KnownFinding{Kind: "fixed", Text: strings.TrimSpace(strings.TrimPrefix(line, "fixed:"))})
		default:
			return nil, fmt.Errorf("malformed known-findings line: %q", line)
		}
	}
	return out, sc.Err()
}

// Finish applies known findings, writes evidence and replay files, prints
// the summary and returns the process exit code.
func (r *Report) Finish(p *Prog, verifDir string, seed int64, writeEvidence bool, extra map[string]any) int {
	if p == nil {
		p = &Prog{}
	}
	known, kerr := LoadKnown(filepath.Join(verifDir, "KNOWN_FINDINGS.txt"))
	if kerr != nil {
		r.Unk("known-findings", "KNOWN_FINDINGS.txt", "", kerr.Error())
	}
	var knownLines []string
	for i := range r.Obls {
		o := &r.Obls[i]
		if o.Verdict != Violated {
			continue
		}
		for _, k := range known {
			if k.Kind == "known" && k.Property == r.Property && k.Rule == o.Rule && k.Construct == o.Construct {
				o.Verdict = Known
				knownLines = append(knownLines, fmt.Sprintf("KNOWN-FINDING: property=%s %s %s (%s) :: %s", r.Property, o.Rule, o.Construct, o.Pos, k.Text))
			}
		}
	}
	sort.SliceStable(r.Obls, func(i, j int) bool {
		if r.Obls[i].Rule != r.Obls[j].Rule {
			return r.Obls[i].Rule < r.Obls[j].Rule
		}
		return r.Obls[i].Construct < r.Obls[j].Construct
	})
	// duplicate keys are a checker bug: obligations must be keyed uniquely
	seen := map[string]int{}
	for _, o := range r.Obls {
		seen[o.Key()]++
	}
	var nDis, nVio, nUnd, nKnown int
	distinct := map[string]bool{}
	for _, o := range r.Obls {
		switch o.Verdict {
		case Discharged:
			nDis++
		case Violated:
			nVio++
		case Undecided:
			nUnd++
		case Known:
			nKnown++
		}
		// non-trivial: the construct was found and had something to decide
		if o.Verdict != Undecided {
			distinct[o.Key()] = true
		}
	}
	replayDir := filepath.Join(verifDir, "evidence", "replay", r.Property)
	if p.GOOS != "" || p.GOARCH != "" {
		replayDir += "-" + p.GOOS + "-" + p.GOARCH
	}
	if !r.NoReplay {
		os.RemoveAll(replayDir)
	}
	var vioLines []string
	for _, o := range r.Obls {
		if o.Verdict != Violated && o.Verdict != Undecided {
			continue
		}
		h := sha1.Sum([]byte(o.Key()))
		name := strings.NewReplacer("/", "_", " ", "_").Replace(o.Rule) + "-" + hex.EncodeToString(h[:4]) + ".json"
		path := filepath.Join(replayDir, name)
		if !r.NoReplay {
			os.MkdirAll(replayDir, 0o755)
			b, _ := json.MarshalIndent(map[string]any{"property": r.Property, "obligation": o}, "", " ")
			os.WriteFile(path, b, 0o644)
		}
		vioLines = append(vioLines, fmt.Sprintf("VIOLATION property=%s replay=%s", r.Property, path))
		fmt.Printf("  %s %s [%s] %s\n    %s\n", strings.ToUpper(o.Verdict), o.Rule, o.Construct, o.Pos, o.Detail)
		for _, w := range o.Witness {
			fmt.Printf("      path: %s\n", w)
		}
	}
	samples := []any{}
	for i, o := range r.Obls {
		if i < 400 {
			samples = append(samples, o)
		}
	}
	var rules []string
	for id, t := range r.RuleText {
		rules = append(rules, id+": "+t)
	}
	sort.Strings(rules)
	var fns []string
	for f := range r.Functions {
		fns = append(fns, f)
	}
	sort.Strings(fns)
	cov := map[string]any{
		"explanation": "Static analysis of /repo's current source (go/packages type-checked program, go/ssa form, per-function CFG with guard-cut reachability, call graph). " +
			"Each obligation is one rule applied to one construct and is decided for every path of the named function; it is a structural necessary condition of the property, not the behaviour itself. " +
			"Not decided: " + strings.Join(r.NotDecided, "; "),
		"rule":                "obligation = rule x construct (function / call site / field / return); an obligation is non-trivial when its anchor resolved and its sink had at least one path to it; distinct by rule+construct key. Rules: " + strings.Join(rules, " | "),
		"obligations":         len(r.Obls),
		"discharged":          nDis,
		"known_findings":      nKnown,
		"undecided":           nUnd,
		"evaluations":         len(r.Obls),
		"distinct_nontrivial": len(distinct),
		"samples":             samples,
		"functions_analysed":  fns,
		"packages":            len(p.Mod),
		"program_functions":   p.NumFuncs,
		"config":              fmt.Sprintf("GOOS=%s GOARCH=%s", orDefault(p.GOOS, "host"), orDefault(p.GOARCH, "host")),
		"checker_cmd":         strings.Join(os.Args, " "),
		"trusted_base":        []string{"go/types", "golang.org/x/tools/go/ssa v0.29.0", "golang.org/x/tools/go/packages", "nechk rule tables"},
		"notes":               r.Notes,
	}
	for k, v := range extra {
		cov[k] = v
	}
	ev := map[string]any{
		"property_id": r.Property,
		"tier":        r.Tier,
		"seed":        seed,
		"level":       "other",
		"coverage":    cov,
		"assumptions": append([]string{"go/ssa faithfully represents the source", "standard library and protobuf runtime behave as documented"}, r.Assume...),
		"wall_s":      time.Since(r.start).Seconds(),
		"violations":  nVio + nUnd,
	}
	if writeEvidence {
		b, _ := json.MarshalIndent(ev, "", " ")
		os.MkdirAll(filepath.Join(verifDir, "evidence"), 0o755)
		if err := os.WriteFile(filepath.Join(verifDir, "evidence", r.Property+".json"), b, 0o644); err != nil {
			fmt.Println("cannot write evidence:", err)
			return 2
		}
	}
	for _, l := range knownLines {
		fmt.Println(l)
	}
	fmt.Printf("%s tier=%s obligations=%d discharged=%d known=%d violated=%d undecided=%d functions=%d wall=%.1fs\n",
		r.Property, r.Tier, len(r.Obls), nDis, nKnown, nVio, nUnd, len(fns), time.Since(r.start).Seconds())
	for k, n := range seen {
		if n > 1 {
			fmt.Printf("  note: obligation key used %d times: %s\n", n, k)
		}
	}
	for _, l := range vioLines {
		fmt.Println(l)
	}
	if nVio+nUnd > 0 {
		return 1
	}
	return 0
}

func orDefault(s, d string) string {
	if s == "" {
		return d
	}
	return s
}
