package core

import (
	"sort"
	"strings"

	"golang.org/x/tools/go/ssa"
)

// TimeForm is a linear time expression: base + sum of duration terms.
// Base is "now" (a time.Now() result), "ts:<fields>" (AsTime of a timestamp
// reached by those field names, root-insensitive but recorded in Root), or
// "?" when not understood. Terms are duration descriptors: "<fields>" of an
// option/field load, or "const:<ns>".
type TimeForm struct {
	Base  string
	Root  ssa.Value // root value of a ts: base
	Terms []string
	Now   ssa.Value // the time.Now() call when Base=="now"
}

func (t TimeForm) String() string {
	s := t.Base
	for _, x := range t.Terms {
		s += " + " + x
	}
	return s
}

// Key is a canonical rendering (terms sorted).
func (t TimeForm) Key() string {
	ts := append([]string{}, t.Terms...)
	sort.Strings(ts)
	return t.Base + "|" + strings.Join(ts, "|")
}

// DurTerm describes a time.Duration value.
func DurTerm(v ssa.Value) string {
	v = Strip(v)
	if k, ok := ConstInt(v); ok {
		return "const:" + itoa64(k)
	}
	p := PathOf(v)
	if len(p.Fields) > 0 {
		return strings.Join(p.Fields, ".")
	}
	// division by a constant: (x)/k
	if bo, ok := v.(*ssa.BinOp); ok {
		if k, ok := ConstInt(bo.Y); ok {
			return "(" + DurTerm(bo.X) + ")" + bo.Op.String() + itoa64(k)
		}
	}
	if c, ok := v.(*ssa.Call); ok {
		switch CalleeName(c.Common()) {
		case "time.Until":
			return "until(" + TimeFormOf(c.Call.Args[0]).String() + ")"
		case "time.Since":
			return "since(" + TimeFormOf(c.Call.Args[0]).String() + ")"
		case "(time.Time).Sub":
			return "(" + TimeFormOf(c.Call.Args[0]).String() + ")-(" + TimeFormOf(c.Call.Args[1]).String() + ")"
		}
	}
	return "?" + v.Name()
}

func itoa64(k int64) string {
	if k == 0 {
		return "0"
	}
	neg := k < 0
	if neg {
		k = -k
	}
	var b []byte
	for k > 0 {
		b = append([]byte{byte('0' + k%10)}, b...)
		k /= 10
	}
	if neg {
		b = append([]byte{'-'}, b...)
	}
	return string(b)
}

// TimeFormOf normalises a time.Time-typed SSA value.
func TimeFormOf(v ssa.Value) TimeForm {
	v = Strip(v)
	switch x := v.(type) {
	case *ssa.Call:
		switch CalleeName(x.Common()) {
		case "time.Now":
			return TimeForm{Base: "now", Now: x}
		case "(time.Time).Add":
			f := TimeFormOf(x.Call.Args[0])
			f.Terms = append(append([]string{}, f.Terms...), DurTerm(x.Call.Args[1]))
			return f
		case "(*google.golang.org/protobuf/types/known/timestamppb.Timestamp).AsTime":
			p := PathOf(x.Call.Args[0])
			if c, ok := p.Root.(*ssa.Call); ok && len(p.Fields) == 0 && CalleeName(c.Common()) == "google.golang.org/protobuf/types/known/timestamppb.New" {
				return TimeFormOf(c.Call.Args[0])
			}
			return TimeForm{Base: "ts:" + strings.Join(p.Fields, "."), Root: p.Root}
		case "(time.Time).UTC", "(time.Time).Local", "(time.Time).Round", "(time.Time).Truncate":
			return TimeFormOf(x.Call.Args[0])
		}
	case *ssa.UnOp:
		// load of a time.Time struct field (x509.Certificate.NotAfter etc.)
		p := PathOf(v)
		if len(p.Fields) > 0 {
			return TimeForm{Base: "field:" + strings.Join(p.Fields, "."), Root: p.Root}
		}
	}
	return TimeForm{Base: "?" + v.Name()}
}

// TimeRel describes a branch condition comparing two time forms: the relation
// "L op R" holds on the true edge; op is ">" or "<" (After / Before).
type TimeRel struct {
	L, R TimeForm
	Op   string
}

// TimeRelOf recognises t.After(u) (t > u) and t.Before(u) (t < u), normalised
// to ">" with swapped operands for Before.
func TimeRelOf(cond ssa.Value) (TimeRel, bool) {
	c, ok := cond.(*ssa.Call)
	if !ok {
		return TimeRel{}, false
	}
	switch CalleeName(c.Common()) {
	case "(time.Time).After":
		return TimeRel{L: TimeFormOf(c.Call.Args[0]), R: TimeFormOf(c.Call.Args[1]), Op: ">"}, true
	case "(time.Time).Before":
		return TimeRel{L: TimeFormOf(c.Call.Args[1]), R: TimeFormOf(c.Call.Args[0]), Op: ">"}, true
	}
	return TimeRel{}, false
}

// TimeGreater builds a guard for the fact "NOT (l > r)" (i.e. the branch that
// rejects when l > r was not taken): success is the false edge of a test
// l.After(r) or r.Before(l). ml and mr select the forms.
func TimeNotGreater(name string, ml, mr func(TimeForm) bool) Guard {
	return Guard{Name: "Not(" + name + ")", Match: func(cond ssa.Value) (int, bool) {
		rel, ok := TimeRelOf(cond)
		if !ok {
			return 0, false
		}
		if ml(rel.L) && mr(rel.R) {
			return 1, true
		}
		return 0, false
	}}
}

// TimeIsGreater is the fact "l > r" (true edge).
func TimeIsGreater(name string, ml, mr func(TimeForm) bool) Guard {
	return Guard{Name: name, Match: func(cond ssa.Value) (int, bool) {
		rel, ok := TimeRelOf(cond)
		if !ok {
			return 0, false
		}
		if ml(rel.L) && mr(rel.R) {
			return 0, true
		}
		return 0, false
	}}
}

// FormIs matches a form by base and exact multiset of terms.
func FormIs(base string, terms ...string) func(TimeForm) bool {
	want := TimeForm{Base: base, Terms: terms}.Key()
	return func(t TimeForm) bool { return t.Key() == want }
}

// EnumEq is the fact "path == k" for an integer/enum field.
func EnumEq(name string, m func(Path) bool, k int64) Guard {
	return Guard{Name: "Eq(" + name + ")", Match: func(cond ssa.Value) (int, bool) {
		bo, ok := cond.(*ssa.BinOp)
		if !ok {
			return 0, false
		}
		x, y := bo.X, bo.Y
		if _, isC := ConstInt(x); isC {
			x, y = y, x
		}
		kv, ok := ConstInt(y)
		if !ok || kv != k || !m(PathOf(x)) {
			return 0, false
		}
		switch bo.Op.String() {
		case "==":
			return 0, true
		case "!=":
			return 1, true
		}
		return 0, false
	}}
}
