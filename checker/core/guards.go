package core

import (
	"go/token"

	"golang.org/x/tools/go/ssa"
)

// CallMatch selects calls.
type CallMatch func(*ssa.Call) bool

// CallNamed matches calls whose resolved callee has one of the names.
func CallNamed(names ...string) CallMatch {
	return func(c *ssa.Call) bool {
		n := CalleeName(c.Common())
		for _, w := range names {
			if n == w {
				return true
			}
		}
		return false
	}
}

// errSource returns the call whose error result v is (directly, or via a phi
// all of whose non-nil operands come from calls matching m).
func errSources(v ssa.Value) []*ssa.Call {
	// the result of a helper traversed on this path is the operand it returned
	if op, _, ok := boundResult(v); ok && op != v {
		if inner := errSources(op); len(inner) > 0 {
			return inner
		}
	}
	switch x := v.(type) {
	case *ssa.Extract, *ssa.Call:
		c, idx := CallResult(x)
		if c == nil {
			return nil
		}
		sig := c.Common().Signature()
		if sig.Results().Len() == 0 || !IsErrorType(sig.Results().At(max(idx, 0)).Type()) {
			return nil
		}
		return []*ssa.Call{c}
	case *ssa.ChangeInterface:
		return errSources(x.X)
	}
	return nil
}

// ErrNil matches "err != nil" / "err == nil" tests of the error result of a
// call selected by m; the fact is "the call succeeded".
func ErrNil(name string, m CallMatch) Guard {
	return Guard{Name: "ErrNil(" + name + ")", Match: func(cond ssa.Value) (int, bool) {
		bo, ok := cond.(*ssa.BinOp)
		if !ok || (bo.Op != token.NEQ && bo.Op != token.EQL) {
			return 0, false
		}
		var ev ssa.Value
		switch {
		case IsNilConst(bo.Y):
			ev = bo.X
		case IsNilConst(bo.X):
			ev = bo.Y
		default:
			return 0, false
		}
		srcs := errSources(ev)
		if len(srcs) == 0 {
			return 0, false
		}
		for _, c := range srcs {
			if !m(c) {
				return 0, false
			}
		}
		if bo.Op == token.NEQ {
			return 1, true
		}
		return 0, true
	}}
}

// BoolCall matches a branch on the boolean result of a call selected by m;
// the fact is "the call returned true".
func BoolCall(name string, m CallMatch) Guard {
	return Guard{Name: "True(" + name + ")", Match: func(cond ssa.Value) (int, bool) {
		c, ok := cond.(*ssa.Call)
		if ok && m(c) {
			return 0, true
		}
		// comparisons of the bool result with a constant
		if bo, ok := cond.(*ssa.BinOp); ok && (bo.Op == token.EQL || bo.Op == token.NEQ) {
			if c, ok := bo.X.(*ssa.Call); ok && m(c) {
				if bv, ok := ConstBool(bo.Y); ok {
					if (bo.Op == token.EQL) == bv {
						return 0, true
					}
					return 1, true
				}
			}
		}
		return 0, false
	}}
}

// equality helpers that return (a, b) operands of a byte-equality call.
var bytesEqFuncs = map[string]bool{
	"crypto/subtle.ConstantTimeCompare": true,
	"bytes.Equal":                       true,
	"crypto/hmac.Equal":                 true,
}

// BytesEq matches a branch on the outcome of a byte comparison whose operands
// satisfy (ma, mb) in either order; the fact is "the slices are equal".
func BytesEq(name string, ma, mb func(Path) bool) Guard {
	return Guard{Name: "BytesEq(" + name + ")", Match: func(cond ssa.Value) (int, bool) {
		check := func(c *ssa.Call) bool {
			if !bytesEqFuncs[CalleeName(c.Common())] || len(c.Call.Args) != 2 {
				return false
			}
			a, b := PathOf(c.Call.Args[0]), PathOf(c.Call.Args[1])
			if (ma(a) && mb(b)) || (ma(b) && mb(a)) {
				return true
			}
			// "for _, row := range []struct{x, y []byte}{...} { compare(row.x, row.y) }":
			// the test is an instance of the guard if one row of the table is the pair
			ra, ca, oka := TableRows(a)
			rb, cb, okb := TableRows(b)
			if oka && okb && ca == cb && len(ra) == len(rb) {
				for k := range ra {
					pa, pb := PathOf(ra[k]), PathOf(rb[k])
					if (ma(pa) && mb(pb)) || (ma(pb) && mb(pa)) {
						return true
					}
				}
			}
			return false
		}
		switch c := cond.(type) {
		case *ssa.Call:
			// bytes.Equal / hmac.Equal used directly
			if check(c) && CalleeName(c.Common()) != "crypto/subtle.ConstantTimeCompare" {
				return 0, true
			}
		case *ssa.BinOp:
			call, ok := c.X.(*ssa.Call)
			k, kok := ConstInt(c.Y)
			if !ok {
				call, ok = c.Y.(*ssa.Call)
				k, kok = ConstInt(c.X)
			}
			if !ok || !check(call) {
				return 0, false
			}
			if CalleeName(call.Common()) != "crypto/subtle.ConstantTimeCompare" || !kok {
				return 0, false
			}
			// result is 1 when equal, 0 otherwise
			switch {
			case c.Op == token.EQL && k == 1, c.Op == token.NEQ && k == 0:
				return 0, true
			case c.Op == token.NEQ && k == 1, c.Op == token.EQL && k == 0:
				return 1, true
			}
		}
		return 0, false
	}}
}

// LenRel matches tests of len(x) against a constant where x satisfies m.
// holds(op, k) decides, for the *true* edge relation "len op k", whether the
// wanted fact holds on the true edge (+1), on the false edge (-1) or is not
// expressed by this test (0).
func LenRel(name string, m func(Path) bool, holds func(op token.Token, k int64) int) Guard {
	return Guard{Name: "Len(" + name + ")", Match: func(cond ssa.Value) (int, bool) {
		bo, ok := cond.(*ssa.BinOp)
		if !ok {
			return 0, false
		}
		x, y, op := bo.X, bo.Y, bo.Op
		if _, isC := ConstInt(x); isC {
			x, y = y, x
			op = flipOp(op)
		}
		k, ok := ConstInt(y)
		if !ok {
			return 0, false
		}
		c, ok := x.(*ssa.Call)
		if !ok || CalleeName(c.Common()) != "builtin:len" || len(c.Call.Args) != 1 {
			return 0, false
		}
		if !m(PathOf(c.Call.Args[0])) {
			return 0, false
		}
		switch holds(op, k) {
		case 1:
			return 0, true
		case -1:
			return 1, true
		}
		return 0, false
	}}
}

func flipOp(op token.Token) token.Token {
	switch op {
	case token.LSS:
		return token.GTR
	case token.GTR:
		return token.LSS
	case token.LEQ:
		return token.GEQ
	case token.GEQ:
		return token.LEQ
	}
	return op
}

// NonEmpty: the fact "len(x) > 0".
func NonEmpty(name string, m func(Path) bool) Guard {
	return LenRel(name+" non-empty", m, func(op token.Token, k int64) int {
		switch {
		case op == token.EQL && k == 0:
			return -1
		case op == token.NEQ && k == 0, op == token.GTR && k == 0, op == token.GEQ && k == 1:
			return 1
		case op == token.LSS && k == 1, op == token.LEQ && k == 0:
			return -1
		}
		return 0
	})
}

// LenEquals: the fact "len(x) == k".
func LenEquals(name string, m func(Path) bool, want int64) Guard {
	return LenRel(name+" len==k", m, func(op token.Token, k int64) int {
		if k != want {
			return 0
		}
		switch op {
		case token.EQL:
			return 1
		case token.NEQ:
			return -1
		}
		return 0
	})
}

// FlagSet matches a branch on a boolean field load whose path satisfies m;
// the fact is "the flag is true".
func FlagSet(name string, m func(Path) bool) Guard {
	return Guard{Name: "Flag(" + name + ")", Match: func(cond ssa.Value) (int, bool) {
		if _, ok := cond.(*ssa.UnOp); !ok {
			return 0, false
		}
		if m(PathOf(cond)) {
			return 0, true
		}
		return 0, false
	}}
}

// FlagClear is the fact "the flag is false".
func FlagClear(name string, m func(Path) bool) Guard {
	g := FlagSet(name, m)
	return Guard{Name: "NotFlag(" + name + ")", Match: func(cond ssa.Value) (int, bool) {
		s, ok := g.Match(cond)
		return 1 - s, ok
	}}
}

// NilTest matches "v == nil"/"v != nil" (and nodeenrollment.IsNil(v)) where
// v's path satisfies m; the fact is "v is nil" when wantNil, else "v non-nil".
func NilTest(name string, m func(Path) bool, wantNil bool) Guard {
	return Guard{Name: "Nil(" + name + ")", Match: func(cond ssa.Value) (int, bool) {
		flip := func(s int) int {
			if wantNil {
				return s
			}
			return 1 - s
		}
		switch c := cond.(type) {
		case *ssa.BinOp:
			if c.Op != token.EQL && c.Op != token.NEQ {
				return 0, false
			}
			var v ssa.Value
			switch {
			case IsNilConst(c.Y):
				v = c.X
			case IsNilConst(c.X):
				v = c.Y
			default:
				return 0, false
			}
			if !m(PathOf(v)) {
				return 0, false
			}
			if c.Op == token.EQL {
				return flip(0), true
			}
			return flip(1), true
		case *ssa.Call:
			if CalleeName(c.Common()) == ModulePath+".IsNil" && len(c.Call.Args) == 1 && m(PathOf(c.Call.Args[0])) {
				return flip(0), true
			}
		}
		return 0, false
	}}
}

// FieldOf builds a path predicate: path is root.<fields...> with the given
// root value.
func FieldOf(root ssa.Value, fields ...string) func(Path) bool {
	return func(p Path) bool { return p.Root == root && p.HasFields(fields...) }
}

// AnyRootField matches any root with exactly the given trailing fields.
func AnyRootField(fields ...string) func(Path) bool {
	return func(p Path) bool { return p.HasFields(fields...) }
}
