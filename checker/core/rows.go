package core

import (
	"go/token"

	"golang.org/x/tools/go/ssa"
)

// Row bindings: while the body of "for _, row := range <literal table>" is
// analysed for one row, reads of the loop element resolve to the value the
// literal stores in that row (PathOf, branch conditions).
var rowBind = map[*ssa.Alloc]int{}

// WithRow runs f with the literal table al bound to row k.
func WithRow(al *ssa.Alloc, k int, f func()) {
	old, had := rowBind[al]
	rowBind[al] = k
	defer func() {
		if had {
			rowBind[al] = old
		} else {
			delete(rowBind, al)
		}
	}()
	f()
}

// BoundRow returns the row al is bound to.
func BoundRow(al *ssa.Alloc) (int, bool) {
	k, ok := rowBind[al]
	return k, ok
}

func tableAlloc(cell *ssa.IndexAddr) *ssa.Alloc {
	if sl, ok := cell.X.(*ssa.Slice); ok {
		if al, ok := sl.X.(*ssa.Alloc); ok {
			return al
		}
	}
	return nil
}

// resolveRow rewrites a path rooted at the element of a bound literal table
// into the path of the value that row stores in the cell.
func resolveRow(p Path) (Path, bool) {
	if len(rowBind) == 0 {
		return p, false
	}
	nf := len(p.Fields)
	if nf > 1 {
		nf = 1
	}
	rows, cell, ok := TableRows(Path{Root: p.Root, Fields: p.Fields[:nf]})
	if !ok {
		return p, false
	}
	k, bound := rowBind[tableAlloc(cell)]
	if !bound || k >= len(rows) {
		return p, false
	}
	inner := pathOf(rows[k])
	return Path{Root: inner.Root, Fields: append(append([]string{}, inner.Fields...), p.Fields[nf:]...)}, true
}

// RowValue: under a row binding, v reads a cell of the bound table; returns the stored value.
func RowValue(v ssa.Value) (ssa.Value, bool) {
	if len(rowBind) == 0 {
		return nil, false
	}
	p := pathOf(v)
	for i := 0; i < 3; i++ {
		if al, isAl := p.Root.(*ssa.Alloc); isAl && len(p.Fields) > 0 {
			if sv := SingleStore(al); sv != nil {
				outer := pathOf(sv)
				p = Path{Root: outer.Root, Fields: append(append([]string{}, outer.Fields...), p.Fields...)}
				continue
			}
		}
		break
	}
	if len(p.Fields) > 1 {
		return nil, false
	}
	rows, cell, ok := TableRows(p)
	if !ok {
		return nil, false
	}
	k, bound := rowBind[tableAlloc(cell)]
	if !bound || k >= len(rows) {
		return nil, false
	}
	return rows[k], true
}

// LiteralLoop describes a range loop over a literal table.
type LiteralLoop struct {
	Header *ssa.BasicBlock
	Table  *ssa.Alloc
	Rows   int
}

// LiteralLoopOf returns the innermost literal-table range loop whose body contains b.
func LiteralLoopOf(b *ssa.BasicBlock) (LiteralLoop, bool) {
	fn := b.Parent()
	var best LiteralLoop
	found := false
	for _, h := range fn.Blocks {
		if !literalRangeHeader(h) || !h.Dominates(b) || h == b {
			continue
		}
		// b is inside the loop if the header is reachable from b without leaving through the header's exit
		if !reaches(b, h, h.Succs[1]) {
			continue
		}
		ifi, _ := lastIf(h)
		lc := ifi.Cond.(*ssa.BinOp).Y.(*ssa.Call)
		al := lc.Call.Args[0].(*ssa.Slice).X.(*ssa.Alloc)
		n, _ := LiteralTableLen(lc.Call.Args[0])
		if !found || best.Header.Dominates(h) {
			best, found = LiteralLoop{Header: h, Table: al, Rows: int(n)}, true
		}
	}
	return best, found
}

func reaches(from, to, avoid *ssa.BasicBlock) bool {
	seen := map[*ssa.BasicBlock]bool{}
	stack := []*ssa.BasicBlock{from}
	for len(stack) > 0 {
		x := stack[len(stack)-1]
		stack = stack[:len(stack)-1]
		if seen[x] || x == avoid {
			continue
		}
		seen[x] = true
		for _, s := range x.Succs {
			if s == to {
				return true
			}
			stack = append(stack, s)
		}
	}
	return false
}

// EachRow runs f once per row of the literal-table loop enclosing in (bound to
// that row), or once unbound when in is not inside such a loop. row is -1 then.
func EachRow(in ssa.Instruction, f func(table *ssa.Alloc, row int)) {
	if in.Block() != nil {
		if ll, ok := LiteralLoopOf(in.Block()); ok {
			if _, already := rowBind[ll.Table]; !already {
				for k := 0; k < ll.Rows; k++ {
					k := k
					WithRow(ll.Table, k, func() { f(ll.Table, k) })
				}
				return
			}
		}
	}
	f(nil, -1)
}

var _ = token.MUL
