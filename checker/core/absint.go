package core

import (
	"fmt"
	"go/token"

	"golang.org/x/tools/go/ssa"
)

// AbsOracle answers branch atoms for one abstract state.
type AbsOracle interface {
	// IsNil decides "path == nil" for an access path rooted at a parameter.
	IsNil(p Path) (val, known bool)
	// TimeGreater decides "l > r" for two time forms.
	TimeGreater(l, r TimeForm) (val, known bool)
}

// AbsRun is the result of running a loop-free function on one abstract state.
type AbsRun struct {
	Return *ssa.Return
	Env    map[*ssa.Phi]ssa.Value // phi -> operand chosen on the executed path
	Path   []int                  // block indices
	Err    string                 // non-empty when a branch could not be decided
}

// AbsExec executes fn's CFG deterministically: every branch condition must be
// decidable from the oracle (nil tests, time comparisons) or from phis and
// constants. Loops are not supported (a block visited twice is an error).
func AbsExec(fn *ssa.Function, o AbsOracle) AbsRun {
	run := AbsRun{Env: map[*ssa.Phi]ssa.Value{}}
	visited := map[*ssa.BasicBlock]bool{}
	b := fn.Blocks[0]
	var prev *ssa.BasicBlock
	for steps := 0; steps < 10000; steps++ {
		if visited[b] {
			run.Err = fmt.Sprintf("block b%d visited twice: the function has a loop on this state", b.Index)
			return run
		}
		visited[b] = true
		run.Path = append(run.Path, b.Index)
		if prev != nil {
			pi := -1
			for i, pb := range b.Preds {
				if pb == prev {
					pi = i
				}
			}
			for _, in := range b.Instrs {
				ph, ok := in.(*ssa.Phi)
				if !ok {
					break
				}
				v := ph.Edges[pi]
				if pv, ok := v.(*ssa.Phi); ok {
					if rv, ok := run.Env[pv]; ok {
						v = rv
					}
				}
				run.Env[ph] = v
			}
		}
		last := b.Instrs[len(b.Instrs)-1]
		switch t := last.(type) {
		case *ssa.Return:
			run.Return = t
			return run
		case *ssa.Jump:
			prev, b = b, b.Succs[0]
		case *ssa.If:
			v, known := absCond(t.Cond, run.Env, o)
			if !known {
				run.Err = fmt.Sprintf("branch condition at b%d is not an atom of the decision table: %s", b.Index, condText(t))
				return run
			}
			prev = b
			if v {
				b = b.Succs[0]
			} else {
				b = b.Succs[1]
			}
		default:
			run.Err = fmt.Sprintf("unsupported terminator %T", last)
			return run
		}
	}
	run.Err = "step limit"
	return run
}

func absCond(c ssa.Value, env map[*ssa.Phi]ssa.Value, o AbsOracle) (bool, bool) {
	switch x := c.(type) {
	case *ssa.Const:
		return ConstBool(x)
	case *ssa.Phi:
		if v, ok := env[x]; ok && v != c {
			return absCond(v, env, o)
		}
		return false, false
	case *ssa.UnOp:
		if x.Op == token.NOT {
			v, k := absCond(x.X, env, o)
			return !v, k
		}
	case *ssa.BinOp:
		if x.Op == token.EQL || x.Op == token.NEQ {
			var other ssa.Value
			switch {
			case IsNilConst(x.Y):
				other = x.X
			case IsNilConst(x.X):
				other = x.Y
			}
			if other != nil {
				if ph, ok := other.(*ssa.Phi); ok {
					if v, ok := env[ph]; ok {
						other = v
					}
				}
				if IsNilConst(other) {
					return x.Op == token.EQL, true
				}
				isNil, known := o.IsNil(PathOf(other))
				if !known {
					return false, false
				}
				if x.Op == token.EQL {
					return isNil, true
				}
				return !isNil, true
			}
		}
	case *ssa.Call:
		if rel, ok := TimeRelOf(x); ok {
			return o.TimeGreater(rel.L, rel.R)
		}
		// a loop-free predicate helper: executed on the same abstract state with
		// its parameters standing for the arguments
		if h := ModuleCallee(x.Common()); h != nil && absDepth < MaxSummaryDepth && h.Signature.Results().Len() == 1 {
			val, known := false, false
			WithSubst(FrameSubst(x.Common(), h), func() {
				absDepth++
				defer func() { absDepth-- }()
				run := AbsExec(h, o)
				if run.Err != "" || run.Return == nil {
					return
				}
				val, known = absCond(run.Return.Results[0], run.Env, o)
			})
			return val, known
		}
	}
	return false, false
}

var absDepth int

// ResolveEnv follows phis through the executed path's environment.
func ResolveEnv(v ssa.Value, env map[*ssa.Phi]ssa.Value) ssa.Value {
	for i := 0; i < 16; i++ {
		ph, ok := v.(*ssa.Phi)
		if !ok {
			return v
		}
		nv, ok := env[ph]
		if !ok || nv == v {
			return v
		}
		v = nv
	}
	return v
}
