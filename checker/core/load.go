// Package core holds the analysis engines shared by all nodeenrollment rules:
// loading (go/packages + go/ssa), value descriptors, predicate recognition,
// guard-cut reachability, and reporting.
package core

import (
	"fmt"
	"go/token"
	"go/types"
	"os"
	"path/filepath"
	"sort"
	"strings"

	"golang.org/x/tools/go/packages"
	"golang.org/x/tools/go/ssa"
	"golang.org/x/tools/go/ssa/ssautil"
)

// ModulePath is the module the rules are written for.
const ModulePath = "github.com/hashicorp/nodeenrollment"

// Prog is the loaded, type-checked program in SSA form.
type Prog struct {
	Dir      string
	Fset     *token.FileSet
	All      []*packages.Package
	Mod      map[string]*packages.Package // module packages by import path
	SSA      *ssa.Program
	SSAPkg   map[string]*ssa.Package // all packages by import path
	GOOS     string
	GOARCH   string
	NumFuncs int
}

// Load type-checks every package of the module in dir (with all dependencies,
// with syntax) and builds SSA for all of them.
func Load(dir string, goos, goarch string) (*Prog, error) {
	env := append(os.Environ(),
		"GOFLAGS=-mod=mod", "GOPROXY=off", "GOSUMDB=off", "GOTOOLCHAIN=local", "GOWORK=off", "CGO_ENABLED=0")
	if goos != "" {
		env = append(env, "GOOS="+goos)
	}
	if goarch != "" {
		env = append(env, "GOARCH="+goarch)
	}
	cfg := &packages.Config{
		Mode:  packages.LoadAllSyntax,
		Dir:   dir,
		Env:   env,
		Tests: false,
	}
	initial, err := packages.Load(cfg, "./...")
	if err != nil {
		return nil, fmt.Errorf("packages.Load: %w", err)
	}
	if len(initial) == 0 {
		return nil, fmt.Errorf("no packages loaded from %s", dir)
	}
	var errs []string
	packages.Visit(initial, nil, func(p *packages.Package) {
		for _, e := range p.Errors {
			errs = append(errs, p.PkgPath+": "+e.Error())
		}
	})
	if len(errs) > 0 {
		sort.Strings(errs)
		if len(errs) > 10 {
			errs = errs[:10]
		}
		return nil, fmt.Errorf("type/load errors:\n  %s", strings.Join(errs, "\n  "))
	}
	prog, _ := ssautil.AllPackages(initial, ssa.InstantiateGenerics)
	prog.Build()
	p := &Prog{Dir: dir, Fset: initial[0].Fset, SSA: prog, Mod: map[string]*packages.Package{}, SSAPkg: map[string]*ssa.Package{}, GOOS: goos, GOARCH: goarch}
	packages.Visit(initial, nil, func(pk *packages.Package) {
		p.All = append(p.All, pk)
		if pk.PkgPath == ModulePath || strings.HasPrefix(pk.PkgPath, ModulePath+"/") {
			p.Mod[pk.PkgPath] = pk
		}
	})
	for _, sp := range prog.AllPackages() {
		p.SSAPkg[sp.Pkg.Path()] = sp
	}
	if len(p.Mod) < 14 {
		return nil, fmt.Errorf("only %d module packages loaded, expected at least 14", len(p.Mod))
	}
	p.NumFuncs = len(ssautil.AllFunctions(prog))
	return p, nil
}

// Pkg returns the module's SSA package with the given path relative to the
// module root ("" for the root package).
func (p *Prog) Pkg(rel string) *ssa.Package {
	path := ModulePath
	if rel != "" {
		path += "/" + rel
	}
	return p.SSAPkg[path]
}

// Func resolves a function or method of a module package. name is either
// "Func" or "(*T).Method" / "(T).Method".
func (p *Prog) Func(rel, name string) *ssa.Function {
	pkg := p.Pkg(rel)
	if pkg == nil {
		return nil
	}
	if strings.HasPrefix(name, "(") {
		end := strings.Index(name, ").")
		if end < 0 {
			return nil
		}
		recv, meth := name[1:end], name[end+2:]
		ptr := strings.HasPrefix(recv, "*")
		recv = strings.TrimPrefix(recv, "*")
		tm := pkg.Members[recv]
		tn, ok := tm.(*ssa.Type)
		if !ok {
			return nil
		}
		var t types.Type = tn.Type()
		if ptr {
			t = types.NewPointer(t)
		}
		sel := p.SSA.MethodSets.MethodSet(t).Lookup(pkg.Pkg, meth)
		if sel == nil {
			return nil
		}
		return p.SSA.MethodValue(sel)
	}
	f, _ := pkg.Members[name].(*ssa.Function)
	return f
}

// Pos renders a position relative to the repository root.
func (p *Prog) Pos(pos token.Pos) string {
	if !pos.IsValid() {
		return "-"
	}
	ps := p.Fset.Position(pos)
	rel, err := filepath.Rel(p.Dir, ps.Filename)
	if err != nil || strings.HasPrefix(rel, "..") {
		rel = ps.Filename
	}
	return fmt.Sprintf("%s:%d", rel, ps.Line)
}

// InModule reports whether fn is declared in the module (not a dependency).
func InModule(fn *ssa.Function) bool {
	if fn == nil {
		return false
	}
	pk := fn.Package()
	if pk == nil && fn.Parent() != nil {
		return InModule(fn.Parent())
	}
	if pk == nil && fn.Origin() != nil {
		return InModule(fn.Origin())
	}
	if pk == nil {
		return false
	}
	path := pk.Pkg.Path()
	return path == ModulePath || strings.HasPrefix(path, ModulePath+"/")
}

// ModuleFuncs returns every source function (including closures and methods)
// of the module's non-test packages, sorted by name.
func (p *Prog) ModuleFuncs() []*ssa.Function {
	var out []*ssa.Function
	for fn := range ssautil.AllFunctions(p.SSA) {
		if fn.Synthetic != "" && fn.Parent() == nil {
			continue
		}
		if InModule(fn) && fn.Blocks != nil {
			out = append(out, fn)
		}
	}
	sort.Slice(out, func(i, j int) bool { return out[i].String() < out[j].String() })
	return out
}

// FuncName gives a short stable name: "pkg.Func", "pkg.(*T).M", "pkg.F$1".
func FuncName(fn *ssa.Function) string {
	if fn == nil {
		return "<nil>"
	}
	s := fn.String()
	s = strings.ReplaceAll(s, ModulePath+"/", "")
	s = strings.ReplaceAll(s, ModulePath+".", "nodeenrollment.")
	s = strings.ReplaceAll(s, ModulePath, "nodeenrollment")
	return s
}
