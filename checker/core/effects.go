package core

import (
	"go/token"
	"go/types"
	"sort"
	"strings"

	"golang.org/x/tools/go/ssa"
)

// Effects of interest.
const (
	EffStore  = "storage.Store"
	EffLoad   = "storage.Load"
	EffRemove = "storage.Remove"
	EffList   = "storage.List"
	EffLoadBy = "storage.LoadByNodeId"
	EffMint   = "x509.CreateCertificate"
	EffUnwrap = "wrapper.Decrypt"
	EffWrap   = "wrapper.Encrypt"
)

// WrapperMethod returns the effect if c invokes Encrypt/Decrypt on the
// go-kms-wrapping Wrapper interface.
func WrapperMethod(c *ssa.CallCommon) (string, bool) {
	if !c.IsInvoke() {
		return "", false
	}
	n, ok := c.Value.Type().(*types.Named)
	if !ok || n.Obj().Pkg() == nil || n.Obj().Pkg().Path() != "github.com/hashicorp/go-kms-wrapping/v2" || n.Obj().Name() != "Wrapper" {
		return "", false
	}
	switch c.Method.Name() {
	case "Decrypt":
		return EffUnwrap, true
	case "Encrypt":
		return EffWrap, true
	}
	return "", false
}

// CallGraph is a module-level call graph: static calls, closures created in a
// function, calls through function-typed struct fields resolved to every
// function value stored into that field anywhere in the module, and interface
// invokes resolved (CHA) to the module's implementing methods. Invokes on the
// nodeenrollment.Storage / NodeIdLoader interfaces are recorded as effects
// and not resolved further (the application supplies the implementation).
type CallGraph struct {
	P       *Prog
	Callees map[*ssa.Function][]*ssa.Function
	Callers map[*ssa.Function][]*ssa.Function
	Direct  map[*ssa.Function]map[string]bool // effects performed directly
	fieldFn map[string][]*ssa.Function        // "T.f" -> functions stored
	eff     map[*ssa.Function]map[string]bool
}

// StorageMethod returns the effect name if c invokes a method of the
// module's Storage or NodeIdLoader interface.
func StorageMethod(c *ssa.CallCommon) (string, bool) {
	if !c.IsInvoke() {
		return "", false
	}
	t := c.Value.Type()
	n, ok := t.(*types.Named)
	if !ok || n.Obj().Pkg() == nil || n.Obj().Pkg().Path() != ModulePath {
		return "", false
	}
	if n.Obj().Name() != "Storage" && n.Obj().Name() != "NodeIdLoader" {
		return "", false
	}
	return "storage." + c.Method.Name(), true
}

// BuildCallGraph constructs the graph over the module's functions.
func BuildCallGraph(p *Prog) *CallGraph {
	g := &CallGraph{P: p, Callees: map[*ssa.Function][]*ssa.Function{}, Callers: map[*ssa.Function][]*ssa.Function{},
		Direct: map[*ssa.Function]map[string]bool{}, fieldFn: map[string][]*ssa.Function{}, eff: map[*ssa.Function]map[string]bool{}}
	fns := p.ModuleFuncs()
	// pass 1: function values stored into struct fields
	for _, fn := range fns {
		for _, b := range fn.Blocks {
			for _, in := range b.Instrs {
				st, ok := in.(*ssa.Store)
				if !ok {
					continue
				}
				fa, ok := st.Addr.(*ssa.FieldAddr)
				if !ok {
					continue
				}
				if f := funcValue(st.Val); f != nil {
					tn, fname := FieldAddrName(fa)
					g.fieldFn[tn+"."+fname] = append(g.fieldFn[tn+"."+fname], f)
				}
			}
		}
	}
	add := func(from, to *ssa.Function) {
		if to == nil {
			return
		}
		for _, x := range g.Callees[from] {
			if x == to {
				return
			}
		}
		g.Callees[from] = append(g.Callees[from], to)
		g.Callers[to] = append(g.Callers[to], from)
	}
	for _, fn := range fns {
		g.Direct[fn] = map[string]bool{}
		for _, b := range fn.Blocks {
			for _, in := range b.Instrs {
				switch x := in.(type) {
				case *ssa.MakeClosure:
					if f, ok := x.Fn.(*ssa.Function); ok {
						add(fn, f)
					}
				}
				ci, ok := in.(ssa.CallInstruction)
				if !ok {
					continue
				}
				c := ci.Common()
				if eff, ok := StorageMethod(c); ok {
					g.Direct[fn][eff] = true
					continue
				}
				if eff, ok := WrapperMethod(c); ok {
					g.Direct[fn][eff] = true
					continue
				}
				name := CalleeName(c)
				if name == "crypto/x509.CreateCertificate" {
					g.Direct[fn][EffMint] = true
				}
				if c.IsInvoke() {
					for _, impl := range moduleImpls(p, c) {
						add(fn, impl)
					}
					continue
				}
				if sc := c.StaticCallee(); sc != nil {
					if InModule(sc) {
						add(fn, sc)
					}
					// function values passed as arguments (callbacks) are reached too
				} else if strings.HasPrefix(name, "field:") {
					for _, f := range g.fieldFn[strings.TrimPrefix(name, "field:")] {
						add(fn, f)
					}
				}
				for _, a := range c.Args {
					if f := funcValue(a); f != nil && InModule(f) {
						add(fn, f)
					}
				}
			}
		}
	}
	return g
}

func funcValue(v ssa.Value) *ssa.Function {
	switch x := v.(type) {
	case *ssa.Function:
		return x
	case *ssa.MakeClosure:
		f, _ := x.Fn.(*ssa.Function)
		return f
	case *ssa.ChangeType:
		return funcValue(x.X)
	}
	return nil
}

// moduleImpls resolves an interface invoke to module methods (CHA).
func moduleImpls(p *Prog, c *ssa.CallCommon) []*ssa.Function {
	iface, ok := c.Value.Type().Underlying().(*types.Interface)
	if !ok {
		return nil
	}
	var out []*ssa.Function
	for _, pk := range p.Mod {
		sp := p.SSAPkg[pk.PkgPath]
		if sp == nil {
			continue
		}
		for _, m := range sp.Members {
			tn, ok := m.(*ssa.Type)
			if !ok {
				continue
			}
			for _, t := range []types.Type{tn.Type(), types.NewPointer(tn.Type())} {
				if types.IsInterface(t) || !types.Implements(t, iface) {
					continue
				}
				if sel := p.SSA.MethodSets.MethodSet(t).Lookup(c.Method.Pkg(), c.Method.Name()); sel != nil {
					if f := p.SSA.MethodValue(sel); f != nil && InModule(f) {
						out = append(out, f)
					}
				}
			}
		}
	}
	return out
}

// Effects returns the transitive effects of fn.
func (g *CallGraph) Effects(fn *ssa.Function) map[string]bool {
	if e, ok := g.eff[fn]; ok {
		return e
	}
	out := map[string]bool{}
	seen := map[*ssa.Function]bool{}
	var walk func(f *ssa.Function)
	walk = func(f *ssa.Function) {
		if seen[f] {
			return
		}
		seen[f] = true
		for e := range g.Direct[f] {
			out[e] = true
		}
		for _, c := range g.Callees[f] {
			walk(c)
		}
	}
	walk(fn)
	g.eff[fn] = out
	return out
}

// CallEffects returns the transitive effects of one call instruction.
func (g *CallGraph) CallEffects(ci ssa.CallInstruction) map[string]bool {
	c := ci.Common()
	out := map[string]bool{}
	if eff, ok := StorageMethod(c); ok {
		out[eff] = true
		return out
	}
	if eff, ok := WrapperMethod(c); ok {
		out[eff] = true
		return out
	}
	name := CalleeName(c)
	if name == "crypto/x509.CreateCertificate" {
		out[EffMint] = true
	}
	var targets []*ssa.Function
	if c.IsInvoke() {
		targets = moduleImpls(g.P, c)
	} else if sc := c.StaticCallee(); sc != nil {
		if InModule(sc) {
			targets = append(targets, sc)
		}
	} else if strings.HasPrefix(name, "field:") {
		targets = g.fieldFn[strings.TrimPrefix(name, "field:")]
	}
	for _, a := range c.Args {
		if f := funcValue(a); f != nil && InModule(f) {
			targets = append(targets, f)
		}
	}
	for _, t := range targets {
		for e := range g.Effects(t) {
			out[e] = true
		}
	}
	return out
}

// Reachable returns every module function reachable from roots.
func (g *CallGraph) Reachable(roots ...*ssa.Function) map[*ssa.Function]bool {
	seen := map[*ssa.Function]bool{}
	var walk func(f *ssa.Function)
	walk = func(f *ssa.Function) {
		if f == nil || seen[f] {
			return
		}
		seen[f] = true
		for _, c := range g.Callees[f] {
			walk(c)
		}
	}
	for _, r := range roots {
		walk(r)
	}
	return seen
}

// CallerNames lists the names of the module functions calling fn, sorted.
func (g *CallGraph) CallerNames(fn *ssa.Function) []string {
	var out []string
	for _, c := range g.Callers[fn] {
		out = append(out, FuncName(c))
	}
	sort.Strings(out)
	return out
}

// FieldFuncs returns the functions stored into struct field "T.f".
func (g *CallGraph) FieldFuncs(key string) []*ssa.Function { return g.fieldFn[key] }

// EffectList renders an effect set.
func EffectList(m map[string]bool) string {
	var s []string
	for k := range m {
		s = append(s, k)
	}
	sort.Strings(s)
	return strings.Join(s, ",")
}

// ErrIs matches a branch on errors.Is(err, <sentinel global named sentinel>)
// where err is the error result of a call selected by m; the fact is "err is
// the sentinel".
func ErrIs(name string, m CallMatch, sentinel string) Guard {
	return BoolCall("errors.Is("+name+", "+sentinel+")", func(c *ssa.Call) bool {
		if CalleeName(c.Common()) != "errors.Is" || len(c.Call.Args) != 2 {
			return false
		}
		if !IsGlobalLoad(c.Call.Args[1], sentinel) {
			return false
		}
		srcs := errSources(c.Call.Args[0])
		if len(srcs) == 0 {
			return false
		}
		for _, s := range srcs {
			if !m(s) {
				return false
			}
		}
		return true
	})
}

// IsGlobalLoad reports whether v is a load of the package-level variable with
// the given qualified name ("pkgpath.Name").
func IsGlobalLoad(v ssa.Value, qualified string) bool {
	u, ok := v.(*ssa.UnOp)
	if !ok || u.Op != token.MUL {
		return false
	}
	g, ok := u.X.(*ssa.Global)
	if !ok || g.Pkg == nil {
		return false
	}
	return g.Pkg.Pkg.Path()+"."+g.Name() == qualified
}
