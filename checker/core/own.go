package core

import (
	"fmt"

	"golang.org/x/tools/go/ssa"
)

// OwnSpec describes one exactly-once ownership obligation.
type OwnSpec struct {
	Fn      *ssa.Function
	Start   *ssa.BasicBlock                     // the resource is owned (0 consumptions) on entry to this block
	Consume func(ssa.Instruction) bool          // instruction consumes the resource
	End     func(from, to *ssa.BasicBlock) bool // edge that ends the obligation (e.g. back to the loop header)
	Skip    func(from, to *ssa.BasicBlock) bool // edges on which there is no resource (nil/!ok arms)
}

// OwnResult lists the ends reached with a wrong number of consumptions.
type OwnResult struct {
	Leaks   []string // reached an end with 0 consumptions
	Doubles []string // reached an end (or a second consume) with >= 2
	Ends    int      // number of (end, count) pairs reached with exactly one consumption
}

// Ownership propagates the set of possible consumption counts {0,1,2+}
// forward from Start; every Return and every End edge must be reached with
// exactly one consumption on every path.
func Ownership(p *Prog, s OwnSpec) OwnResult {
	var res OwnResult
	type st struct {
		b *ssa.BasicBlock
		n int
	}
	seen := map[st]bool{}
	work := []st{{s.Start, 0}}
	seen[work[0]] = true
	leak := map[string]bool{}
	dbl := map[string]bool{}
	endOK := map[string]bool{}
	for len(work) > 0 {
		cur := work[len(work)-1]
		work = work[:len(work)-1]
		n := cur.n
		for _, in := range cur.b.Instrs {
			if s.Consume(in) {
				n++
				if n >= 2 {
					n = 2
					dbl[p.Pos(in.Pos())+" second consumption"] = true
				}
			}
			if ret, ok := in.(*ssa.Return); ok {
				key := p.Pos(ret.Pos())
				switch n {
				case 0:
					leak[key+" return"] = true
				case 1:
					endOK[key] = true
				}
			}
		}
		for _, succ := range cur.b.Succs {
			if s.Skip != nil && s.Skip(cur.b, succ) {
				continue
			}
			if s.End != nil && s.End(cur.b, succ) {
				key := fmt.Sprintf("%s -> b%d", blockPos(p, cur.b), succ.Index)
				switch n {
				case 0:
					leak[key+" (next iteration)"] = true
				case 1:
					endOK[key] = true
				}
				continue
			}
			ns := st{succ, n}
			if !seen[ns] {
				seen[ns] = true
				work = append(work, ns)
			}
		}
	}
	for k := range leak {
		res.Leaks = append(res.Leaks, k)
	}
	for k := range dbl {
		res.Doubles = append(res.Doubles, k)
	}
	res.Ends = len(endOK)
	return res
}

// CalleeConsumes reports whether helper h consumes its parameter pi exactly
// once on every path. base decides whether an instruction consumes a value
// for which isAlias holds; calls to further helpers are followed (depth-bounded).
func CalleeConsumes(p *Prog, h *ssa.Function, pi int, base func(in ssa.Instruction, isAlias func(ssa.Value) bool) bool, depth int) bool {
	if h == nil || h.Blocks == nil || pi >= len(h.Params) || depth > MaxSummaryDepth {
		return false
	}
	// aliases are judged in the helper's own frame
	saved := substMap
	substMap = map[ssa.Value]ssa.Value{}
	defer func() { substMap = saved }()
	param := ssa.Value(h.Params[pi])
	spill := ssa.Value(nil)
	for _, ref := range *h.Params[pi].Referrers() {
		if st, ok := ref.(*ssa.Store); ok && st.Val == param {
			if al, ok := st.Addr.(*ssa.Alloc); ok {
				spill = al
			}
		}
	}
	isAlias := func(v ssa.Value) bool {
		v = Strip(v)
		if v == param {
			return true
		}
		pp := PathOf(v)
		if pp.Root == param || (spill != nil && pp.Root == spill) {
			// the value itself or an embedded connection of it
			for _, f := range pp.Fields {
				if f != "Conn" && f != "conn" {
					return false
				}
			}
			return true
		}
		return false
	}
	consume := func(in ssa.Instruction) bool {
		if base(in, isAlias) {
			return true
		}
		return CallConsumes(p, in, isAlias, base, depth+1)
	}
	res := Ownership(p, OwnSpec{Fn: h, Start: h.Blocks[0], Consume: consume})
	return len(res.Leaks) == 0 && len(res.Doubles) == 0 && res.Ends > 0
}

// CallConsumes: in is a call to a module helper that receives an alias as
// argument i and consumes that parameter exactly once on every path.
func CallConsumes(p *Prog, in ssa.Instruction, isAlias func(ssa.Value) bool, base func(ssa.Instruction, func(ssa.Value) bool) bool, depth int) bool {
	ci, ok := in.(ssa.CallInstruction)
	if !ok {
		return false
	}
	if _, isGo := in.(*ssa.Go); isGo {
		return false
	}
	h := ModuleCallee(ci.Common())
	if h == nil {
		return false
	}
	for i, a := range ci.Common().Args {
		if isAlias(a) && CalleeConsumes(p, h, i, base, depth) {
			return true
		}
	}
	return false
}
