package core

import (
	"fmt"

	"golang.org/x/tools/go/ssa"
)

// OwnSpec describes one exactly-once ownership obligation.
type OwnSpec struct {
	Fn      *ssa.Function
	Start   *ssa.BasicBlock               // the resource is owned (0 consumptions) on entry to this block
	Consume func(ssa.Instruction) bool    // instruction consumes the resource
	End     func(from, to *ssa.BasicBlock) bool // edge that ends the obligation (e.g. back to the loop header)
	Skip    func(from, to *ssa.BasicBlock) bool // edges on which there is no resource (nil/!ok arms)
}

// OwnResult lists the ends reached with a wrong number of consumptions.
type OwnResult struct {
	Leaks   []string // reached an end with 0 consumptions
	Doubles []string // reached an end (or a second consume) with >= 2
	Ends    int      // number of (end, count) pairs reached with exactly one consumption
}

// Ownership propagates the set of possible consumption counts {0,1,2+}
// forward from Start; every Return and every End edge must be reached with
// exactly one consumption on every path.
func Ownership(p *Prog, s OwnSpec) OwnResult {
	var res OwnResult
	type st struct {
		b *ssa.BasicBlock
		n int
	}
	seen := map[st]bool{}
	work := []st{{s.Start, 0}}
	seen[work[0]] = true
	leak := map[string]bool{}
	dbl := map[string]bool{}
	endOK := map[string]bool{}
	for len(work) > 0 {
		cur := work[len(work)-1]
		work = work[:len(work)-1]
		n := cur.n
		for _, in := range cur.b.Instrs {
			if s.Consume(in) {
				n++
				if n >= 2 {
					n = 2
					dbl[p.Pos(in.Pos())+" second consumption"] = true
				}
			}
			if ret, ok := in.(*ssa.Return); ok {
				key := p.Pos(ret.Pos())
				switch n {
				case 0:
					leak[key+" return"] = true
				case 1:
					endOK[key] = true
				}
			}
		}
		for _, succ := range cur.b.Succs {
			if s.Skip != nil && s.Skip(cur.b, succ) {
				continue
			}
			if s.End != nil && s.End(cur.b, succ) {
				key := fmt.Sprintf("%s -> b%d", blockPos(p, cur.b), succ.Index)
				switch n {
				case 0:
					leak[key+" (next iteration)"] = true
				case 1:
					endOK[key] = true
				}
				continue
			}
			ns := st{succ, n}
			if !seen[ns] {
				seen[ns] = true
				work = append(work, ns)
			}
		}
	}
	for k := range leak {
		res.Leaks = append(res.Leaks, k)
	}
	for k := range dbl {
		res.Doubles = append(res.Doubles, k)
	}
	res.Ends = len(endOK)
	return res
}
