package core

import (
	"go/token"
	"sort"
	"strings"

	"golang.org/x/tools/go/ssa"
)

// GlobalUse is one reference to a module package-level variable.
type GlobalUse struct {
	G     *ssa.Global
	Fn    *ssa.Function
	Instr ssa.Instruction
	Kind  string // "read", "write", "address"
}

// SharedState lists, for the hand-written (non-generated) module code outside
// package initialisers, the package-level variables that can carry state from
// one call to the next: variables that are stored to, whose address is taken
// (method calls on sync.Map / sync.Mutex / struct values, field or element
// addresses), or whose loaded map/slice value is updated in place. A variable
// that is only ever loaded (error sentinels) is not state.
func SharedState(p *Prog) (mutable map[*ssa.Global]string, uses map[*ssa.Global][]GlobalUse) {
	mutable = map[*ssa.Global]string{}
	uses = map[*ssa.Global][]GlobalUse{}
	for _, fn := range p.ModuleFuncs() {
		if fn.Blocks == nil || fn.Name() == "init" || strings.HasPrefix(fn.Name(), "init#") {
			continue
		}
		if strings.HasSuffix(p.Fset.Position(fn.Pos()).Filename, ".pb.go") {
			continue
		}
		for _, b := range fn.Blocks {
			for _, in := range b.Instrs {
				var ops []*ssa.Value
				ops = in.Operands(ops)
				for _, op := range ops {
					if op == nil || *op == nil {
						continue
					}
					g, ok := (*op).(*ssa.Global)
					if !ok || g.Pkg == nil || !strings.HasPrefix(g.Pkg.Pkg.Path(), ModulePath) {
						continue
					}
					kind := "address"
					switch x := in.(type) {
					case *ssa.UnOp:
						if x.Op == token.MUL && x.X == ssa.Value(g) {
							kind = "read"
							// in-place update of the loaded container
							for _, ref := range *x.Referrers() {
								switch y := ref.(type) {
								case *ssa.MapUpdate:
									if y.Map == ssa.Value(x) {
										mutable[g] = "map updated in place at " + p.Pos(y.Pos())
									}
								case *ssa.IndexAddr:
									for _, r2 := range *y.Referrers() {
										if st, isSt := r2.(*ssa.Store); isSt && st.Addr == ssa.Value(y) {
											mutable[g] = "element written at " + p.Pos(st.Pos())
										}
									}
								}
							}
						}
					case *ssa.Store:
						if x.Addr == ssa.Value(g) {
							kind = "write"
							mutable[g] = "assigned at " + p.Pos(x.Pos())
						}
					}
					if kind == "address" {
						mutable[g] = "address taken (method call, field or element access) at " + p.Pos(in.Pos())
					}
					uses[g] = append(uses[g], GlobalUse{G: g, Fn: fn, Instr: in, Kind: kind})
				}
			}
		}
	}
	return mutable, uses
}

// SharedStateReachable lists the mutable package-level variables referenced by
// functions reachable from roots, with one referencing function each.
func SharedStateReachable(p *Prog, cg *CallGraph, roots []*ssa.Function) []string {
	mutable, uses := SharedState(p)
	reach := cg.Reachable(roots...)
	var out []string
	for g, why := range mutable {
		for _, u := range uses[g] {
			f := u.Fn
			for f != nil && !reach[f] {
				f = f.Parent()
			}
			if f != nil {
				out = append(out, g.Pkg.Pkg.Name()+"."+g.Name()+" ("+why+"; used by "+FuncName(u.Fn)+")")
				break
			}
		}
	}
	sort.Strings(out)
	return out
}
