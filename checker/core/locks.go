package core

import (
	"go/token"
	"strings"

	"golang.org/x/tools/go/ssa"
)

// LockState of one mutex at a program point.
type LockState int

const (
	LNone LockState = iota
	LRead
	LWrite
	LConflict // different states on joining paths
)

func (s LockState) String() string {
	return [...]string{"none", "R", "W", "conflict"}[s]
}

// LockInfo is the result of the lock-state dataflow for one function and one
// mutex (identified by the last field names of its access path, e.g.
// "closedMutex", or "RWMutex" for an embedded mutex).
type LockInfo struct {
	Fn       *ssa.Function
	Before   map[ssa.Instruction]LockState // state just before each instruction
	AtReturn map[*ssa.Return]LockState     // state after deferred unlocks ran
	Problems []string
}

func lockOp(c *ssa.CallCommon, field string) (op string, ok bool) {
	fn := c.StaticCallee()
	if fn == nil || len(c.Args) == 0 {
		return "", false
	}
	name := fn.String()
	var m string
	switch {
	case strings.HasSuffix(name, "sync.RWMutex).Lock"), strings.HasSuffix(name, "sync.Mutex).Lock"):
		m = "Lock"
	case strings.HasSuffix(name, "sync.RWMutex).Unlock"), strings.HasSuffix(name, "sync.Mutex).Unlock"):
		m = "Unlock"
	case strings.HasSuffix(name, "sync.RWMutex).RLock"):
		m = "RLock"
	case strings.HasSuffix(name, "sync.RWMutex).RUnlock"):
		m = "RUnlock"
	default:
		return "", false
	}
	p := PathOf(c.Args[0])
	last := p.Last()
	last = strings.TrimPrefix(last, "&")
	if last != field {
		return "", false
	}
	return m, true
}

func applyLock(s LockState, op string) (LockState, string) {
	switch op {
	case "Lock":
		if s != LNone {
			return LWrite, "Lock() while holding " + s.String()
		}
		return LWrite, ""
	case "RLock":
		if s == LWrite {
			return LRead, "RLock() while holding W"
		}
		return LRead, ""
	case "Unlock":
		if s != LWrite {
			return LNone, "Unlock() while holding " + s.String()
		}
		return LNone, ""
	case "RUnlock":
		if s != LRead {
			return LNone, "RUnlock() while holding " + s.String()
		}
		return LNone, ""
	}
	return s, ""
}

// LockFlow runs the forward must-analysis. entry is the state on function
// entry (closures called synchronously inherit the caller's state).
func LockFlow(p *Prog, fn *ssa.Function, field string, entry LockState) *LockInfo {
	li := &LockInfo{Fn: fn, Before: map[ssa.Instruction]LockState{}, AtReturn: map[*ssa.Return]LockState{}}
	in := map[*ssa.BasicBlock]LockState{}
	has := map[*ssa.BasicBlock]bool{}
	work := []*ssa.BasicBlock{fn.Blocks[0]}
	in[fn.Blocks[0]] = entry
	has[fn.Blocks[0]] = true
	// deferred unlock operations registered anywhere (this repository defers
	// them unconditionally right after locking)
	var deferred []string
	for _, b := range fn.Blocks {
		for _, ins := range b.Instrs {
			if d, ok := ins.(*ssa.Defer); ok {
				if op, ok := lockOp(d.Common(), field); ok {
					deferred = append(deferred, op)
				}
			}
		}
	}
	probSeen := map[string]bool{}
	for len(work) > 0 {
		b := work[len(work)-1]
		work = work[:len(work)-1]
		s := in[b]
		for _, ins := range b.Instrs {
			if prev, ok := li.Before[ins]; ok && prev != s {
				li.Before[ins] = LConflict
			} else {
				li.Before[ins] = s
			}
			switch x := ins.(type) {
			case *ssa.Call:
				if op, ok := lockOp(x.Common(), field); ok {
					ns, prob := applyLock(s, op)
					if prob != "" && !probSeen[p.Pos(x.Pos())+prob] {
						probSeen[p.Pos(x.Pos())+prob] = true
						li.Problems = append(li.Problems, p.Pos(x.Pos())+": "+prob)
					}
					s = ns
				}
			case *ssa.Return:
				rs := s
				for i := len(deferred) - 1; i >= 0; i-- {
					rs, _ = applyLock(rs, deferred[i])
				}
				li.AtReturn[x] = rs
			}
		}
		for _, succ := range b.Succs {
			if !has[succ] {
				has[succ] = true
				in[succ] = s
				work = append(work, succ)
			} else if in[succ] != s && in[succ] != LConflict {
				in[succ] = LConflict
				work = append(work, succ)
			}
		}
	}
	return li
}

// IsFieldAccess reports whether instr loads or stores field `field` of struct
// type typeName ("pkg.Type"): returns (isWrite, true).
func IsFieldAccess(ins ssa.Instruction, typeName, field string) (write bool, ok bool) {
	switch x := ins.(type) {
	case *ssa.Store:
		if fa, isFA := x.Addr.(*ssa.FieldAddr); isFA {
			if tn, f := FieldAddrName(fa); tn == typeName && f == field {
				return true, true
			}
		}
	case *ssa.UnOp:
		if x.Op == token.MUL {
			if fa, isFA := x.X.(*ssa.FieldAddr); isFA {
				if tn, f := FieldAddrName(fa); tn == typeName && f == field {
					return false, true
				}
			}
		}
	}
	return false, false
}
