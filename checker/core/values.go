package core

import (
	"go/constant"
	"go/token"
	"go/types"
	"strings"

	"golang.org/x/tools/go/ssa"
)

// Strip removes wrappers that do not change the data a value denotes:
// interface boxing, type changes, []byte<->string conversions and
// full-range re-slicing.
func Strip(v ssa.Value) ssa.Value {
	for {
		switch x := v.(type) {
		case *ssa.Parameter:
			if nv, ok := substituted(x); ok {
				v = nv
				continue
			}
			return v
		case *ssa.MakeInterface:
			v = x.X
		case *ssa.ChangeInterface:
			v = x.X
		case *ssa.ChangeType:
			v = x.X
		case *ssa.Convert:
			if isBytesOrString(x.Type()) && isBytesOrString(x.X.Type()) {
				v = x.X
			} else {
				return v
			}
		case *ssa.Slice:
			if x.Low == nil && x.High == nil && x.Max == nil {
				if _, isPtr := x.X.Type().Underlying().(*types.Pointer); !isPtr {
					v = x.X
					continue
				}
			}
			return v
		default:
			return v
		}
	}
}

func isBytesOrString(t types.Type) bool {
	switch u := t.Underlying().(type) {
	case *types.Basic:
		return u.Info()&types.IsString != 0
	case *types.Slice:
		b, ok := u.Elem().Underlying().(*types.Basic)
		return ok && b.Kind() == types.Byte
	}
	return false
}

// Path is an access path: a root SSA value followed by struct field names.
// go/ssa performs no CSE, so two loads of req.Nonce are distinct values with
// the same Path; paths are compared structurally with root identity.
type Path struct {
	Root   ssa.Value
	Fields []string
}

func (p Path) String() string {
	r := "?"
	if p.Root != nil {
		r = ValueName(p.Root)
	}
	if len(p.Fields) == 0 {
		return r
	}
	return r + "." + strings.Join(p.Fields, ".")
}

// Last returns the last field name or "".
func (p Path) Last() string {
	if len(p.Fields) == 0 {
		return ""
	}
	return p.Fields[len(p.Fields)-1]
}

// Equal compares root identity and fields.
func (p Path) Equal(q Path) bool {
	if p.Root != q.Root || len(p.Fields) != len(q.Fields) {
		return false
	}
	for i := range p.Fields {
		if p.Fields[i] != q.Fields[i] {
			return false
		}
	}
	return true
}

// HasFields reports whether the path ends with exactly these field names.
func (p Path) HasFields(fs ...string) bool {
	if len(p.Fields) != len(fs) {
		return false
	}
	for i := range fs {
		if p.Fields[i] != fs[i] {
			return false
		}
	}
	return true
}

// PathOf folds loads through field addresses (and proto getters) into a Path.
func PathOf(v ssa.Value) Path {
	p := pathOf(v)
	for i := 0; i < 4; i++ {
		// a local struct slot written exactly once (a spilled by-value parameter,
		// or "x := <-ch") denotes the value stored into it
		if al, isAl := p.Root.(*ssa.Alloc); isAl && len(p.Fields) > 0 {
			if sv := SingleStore(al); sv != nil {
				outer := pathOf(sv)
				p = Path{Root: outer.Root, Fields: append(append([]string{}, outer.Fields...), p.Fields...)}
				continue
			}
		}
		if rp, isRow := resolveRow(p); isRow {
			p = rp
			continue
		}
		// a field of a local struct (a small context object built once and handed
		// to its methods / helpers) denotes the value stored into that field, when
		// that store is the only one to this field of this type in the module
		if len(p.Fields) > 0 {
			var al *ssa.Alloc
			switch x := p.Root.(type) {
			case *ssa.Alloc:
				al = x
			case *ssa.UnOp:
				if x.Op == token.MUL {
					al, _ = x.X.(*ssa.Alloc)
				}
			}
			if al != nil {
				if fv := forwardedField(al, strings.TrimPrefix(p.Fields[0], "&")); fv != nil && !strings.HasPrefix(p.Fields[0], "&") {
					outer := pathOf(fv)
					p = Path{Root: outer.Root, Fields: append(append([]string{}, outer.Fields...), p.Fields[1:]...)}
					continue
				}
			}
		}
		nv, ok := substituted(p.Root)
		if !ok {
			break
		}
		var outer Path
		if _, isFv := p.Root.(*ssa.FreeVar); isFv {
			// the free variable is the address of the captured variable
			outer = Path{Root: nv}
			if al, isAl := nv.(*ssa.Alloc); isAl {
				if sv := SingleStore(al); sv != nil {
					outer = pathOf(sv)
				}
			}
		} else {
			outer = pathOf(nv)
		}
		p = Path{Root: outer.Root, Fields: append(append([]string{}, outer.Fields...), p.Fields...)}
	}
	return p
}

func pathOf(v ssa.Value) Path {
	v = Strip(v)
	switch x := v.(type) {
	case *ssa.UnOp:
		if x.Op == token.MUL {
			if fa, ok := x.X.(*ssa.FieldAddr); ok {
				base := PathOf(fa.X)
				return Path{Root: base.Root, Fields: append(append([]string{}, base.Fields...), fieldName(fa.X.Type(), fa.Field))}
			}
			// load of a single-store local alloc: see through
			if al, ok := x.X.(*ssa.Alloc); ok {
				if sv := SingleStore(al); sv != nil {
					return PathOf(sv)
				}
			}
			// load of a captured variable or package-level variable: the
			// variable itself is the root (every load denotes the same cell)
			if fv, ok := x.X.(*ssa.FreeVar); ok {
				return Path{Root: fv}
			}
			if g, ok := x.X.(*ssa.Global); ok {
				return Path{Root: g}
			}
			// *(&x.F) is x.F: a pointer that denotes the address of a field
			// (a table cell "&rec.F" under a row binding)
			if _, isPtr := x.X.Type().Underlying().(*types.Pointer); isPtr && len(rowBind) > 0 {
				if _, isAlloc := x.X.(*ssa.Alloc); !isAlloc {
					inner := PathOf(x.X)
					if n := len(inner.Fields); n > 0 && strings.HasPrefix(inner.Fields[n-1], "&") {
						fs := append([]string{}, inner.Fields...)
						fs[n-1] = strings.TrimPrefix(fs[n-1], "&")
						return Path{Root: inner.Root, Fields: fs}
					}
				}
			}
		}
	case *ssa.Field:
		base := PathOf(x.X)
		return Path{Root: base.Root, Fields: append(append([]string{}, base.Fields...), fieldName(x.X.Type(), x.Field))}
	case *ssa.FieldAddr:
		base := PathOf(x.X)
		return Path{Root: base.Root, Fields: append(append([]string{}, base.Fields...), "&"+fieldName(x.X.Type(), x.Field))}
	case *ssa.Call:
		// proto getter: m.GetX() == m.X (nil-safe)
		if fn := x.Call.StaticCallee(); fn != nil && !x.Call.IsInvoke() && len(x.Call.Args) == 1 && strings.HasPrefix(fn.Name(), "Get") && InModule(fn) {
			if st := structOf(x.Call.Args[0].Type()); st != nil {
				fname := strings.TrimPrefix(fn.Name(), "Get")
				for i := 0; i < st.NumFields(); i++ {
					if st.Field(i).Name() == fname {
						base := PathOf(x.Call.Args[0])
						return Path{Root: base.Root, Fields: append(append([]string{}, base.Fields...), fname)}
					}
				}
			}
		}
	}
	return Path{Root: v}
}

// SingleStore returns the only value ever stored to a local allocation whose
// address does not otherwise escape (used for variables captured by closures),
// or nil.
func SingleStore(al *ssa.Alloc) ssa.Value {
	var stored ssa.Value
	n := 0
	for _, r := range *al.Referrers() {
		switch u := r.(type) {
		case *ssa.Store:
			if u.Addr == al {
				stored = u.Val
				n++
			} else {
				return nil
			}
		case *ssa.UnOp:
		case *ssa.MakeClosure:
		case *ssa.DebugRef:
		case *ssa.FieldAddr:
			if !onlyRead(u, 0) {
				return nil
			}
		default:
			return nil
		}
	}
	if n == 1 {
		return stored
	}
	return nil
}

// onlyRead: the address (of a field of a local slot) is only loaded from.
func onlyRead(addr ssa.Value, depth int) bool {
	refs := addr.Referrers()
	if refs == nil || depth > 3 {
		return false
	}
	for _, r := range *refs {
		switch u := r.(type) {
		case *ssa.UnOp, *ssa.DebugRef:
		case *ssa.FieldAddr:
			if !onlyRead(u, depth+1) {
				return false
			}
		default:
			return false
		}
	}
	return true
}

func structOf(t types.Type) *types.Struct {
	if p, ok := t.Underlying().(*types.Pointer); ok {
		t = p.Elem()
	}
	st, _ := t.Underlying().(*types.Struct)
	return st
}

func fieldName(t types.Type, idx int) string {
	st := structOf(t)
	if st == nil || idx >= st.NumFields() {
		return "?"
	}
	return st.Field(idx).Name()
}

// FieldAddrName returns the struct type name and field name of a FieldAddr.
func FieldAddrName(fa *ssa.FieldAddr) (typeName, field string) {
	t := fa.X.Type()
	if p, ok := t.Underlying().(*types.Pointer); ok {
		t = p.Elem()
	}
	tn := t.String()
	if n, ok := t.(*types.Named); ok {
		tn = n.Obj().Name()
		if n.Obj().Pkg() != nil {
			tn = n.Obj().Pkg().Name() + "." + tn
		}
	}
	return tn, fieldName(fa.X.Type(), fa.Field)
}

// ValueName is a short printable description of a value's origin.
func ValueName(v ssa.Value) string {
	switch x := v.(type) {
	case *ssa.Parameter:
		return "param:" + x.Name()
	case *ssa.FreeVar:
		return "freevar:" + x.Name()
	case *ssa.Const:
		return "const:" + x.String()
	case *ssa.Global:
		return "global:" + x.Name()
	case *ssa.Call:
		return "call:" + CalleeName(x.Common()) + "@" + x.Name()
	case *ssa.Extract:
		if c, ok := x.Tuple.(*ssa.Call); ok {
			return "call:" + CalleeName(c.Common()) + "#" + itoa(x.Index)
		}
		return "extract:" + x.Name()
	case *ssa.Phi:
		return "phi:" + x.Comment + "@" + x.Name()
	case *ssa.Alloc:
		return "alloc:" + x.Comment + "@" + x.Name()
	case *ssa.Function:
		return "func:" + FuncName(x)
	}
	return v.Name()
}

func itoa(i int) string {
	if i == 0 {
		return "0"
	}
	neg := i < 0
	if neg {
		i = -i
	}
	var b []byte
	for i > 0 {
		b = append([]byte{byte('0' + i%10)}, b...)
		i /= 10
	}
	if neg {
		b = append([]byte{'-'}, b...)
	}
	return string(b)
}

// CalleeName renders the resolved callee of a call: a qualified function
// name, "(recv).Method" for methods, "invoke:(iface).Method" for interface
// calls, "field:T.f" for calls through a function-typed struct field,
// "builtin:name" for builtins and "dynamic" otherwise.
func CalleeName(c *ssa.CallCommon) string {
	if c.IsInvoke() {
		recv := c.Value.Type().String()
		return "invoke:(" + recv + ")." + c.Method.Name()
	}
	if fn := c.StaticCallee(); fn != nil {
		if fn.Origin() != nil {
			fn = fn.Origin()
		}
		return fn.String()
	}
	switch v := c.Value.(type) {
	case *ssa.Builtin:
		return "builtin:" + v.Name()
	case *ssa.UnOp:
		if fa, ok := v.X.(*ssa.FieldAddr); ok && v.Op == token.MUL {
			tn, fn := FieldAddrName(fa)
			return "field:" + tn + "." + fn
		}
	case *ssa.MakeClosure:
		if fn, ok := v.Fn.(*ssa.Function); ok {
			return fn.String()
		}
	}
	return "dynamic"
}

// IsCallTo reports whether instr is a call whose resolved callee name equals
// one of names.
func IsCallTo(instr ssa.Instruction, names ...string) (*ssa.CallCommon, bool) {
	ci, ok := instr.(ssa.CallInstruction)
	if !ok {
		return nil, false
	}
	n := CalleeName(ci.Common())
	for _, w := range names {
		if n == w {
			return ci.Common(), true
		}
	}
	return nil, false
}

// Calls returns all call instructions (call, go, defer) of fn whose callee
// name equals one of names, in block order.
func Calls(fn *ssa.Function, names ...string) []ssa.CallInstruction {
	var out []ssa.CallInstruction
	for _, b := range fn.Blocks {
		for _, in := range b.Instrs {
			if _, ok := IsCallTo(in, names...); ok {
				out = append(out, in.(ssa.CallInstruction))
			}
		}
	}
	return out
}

// AllCalls returns every call instruction of fn.
func AllCalls(fn *ssa.Function) []ssa.CallInstruction {
	var out []ssa.CallInstruction
	for _, b := range fn.Blocks {
		for _, in := range b.Instrs {
			if ci, ok := in.(ssa.CallInstruction); ok {
				out = append(out, ci)
			}
		}
	}
	return out
}

// CallResult follows Extract to the producing call: for v = extract t #i (or
// the call value itself) returns the call and the result index.
func CallResult(v ssa.Value) (*ssa.Call, int) {
	switch x := v.(type) {
	case *ssa.Extract:
		if c, ok := x.Tuple.(*ssa.Call); ok {
			return c, x.Index
		}
	case *ssa.Call:
		return x, 0
	}
	return nil, -1
}

// IsNilConst reports whether v is the constant nil.
func IsNilConst(v ssa.Value) bool {
	c, ok := v.(*ssa.Const)
	return ok && c.Value == nil
}

// ConstInt returns the integer value of a constant.
func ConstInt(v ssa.Value) (int64, bool) {
	c, ok := v.(*ssa.Const)
	if !ok || c.Value == nil || c.Value.Kind() != constant.Int {
		return 0, false
	}
	return c.Int64(), true
}

// ConstString returns the string value of a constant.
func ConstString(v ssa.Value) (string, bool) {
	c, ok := v.(*ssa.Const)
	if !ok || c.Value == nil || c.Value.Kind() != constant.String {
		return "", false
	}
	return constant.StringVal(c.Value), true
}

// ConstBool returns the bool value of a constant.
func ConstBool(v ssa.Value) (bool, bool) {
	c, ok := v.(*ssa.Const)
	if !ok || c.Value == nil || c.Value.Kind() != constant.Bool {
		return false, false
	}
	return constant.BoolVal(c.Value), true
}

// ErrorResultIndex returns the index of the error result of a signature, or -1.
func ErrorResultIndex(sig *types.Signature) int {
	r := sig.Results()
	for i := r.Len() - 1; i >= 0; i-- {
		if IsErrorType(r.At(i).Type()) {
			return i
		}
	}
	return -1
}

// IsErrorType reports whether t is the predeclared error interface.
func IsErrorType(t types.Type) bool {
	n, ok := t.(*types.Named)
	return ok && n.Obj().Pkg() == nil && n.Obj().Name() == "error"
}

// LiteralTableLen: v is a slice of a local array literal ([]T{...} lowered to
// "slice new [N]T"); returns N.
func LiteralTableLen(v ssa.Value) (int64, bool) {
	sl, ok := v.(*ssa.Slice)
	if !ok || sl.Low != nil || sl.High != nil {
		return 0, false
	}
	al, ok := sl.X.(*ssa.Alloc)
	if !ok {
		return 0, false
	}
	pt, ok := al.Type().Underlying().(*types.Pointer)
	if !ok {
		return 0, false
	}
	at, ok := pt.Elem().Underlying().(*types.Array)
	if !ok {
		return 0, false
	}
	return at.Len(), true
}

// TableRows: pth reads (a field of) the element a range loop takes from a
// literal table - root "*&S[i]" with S a slice literal of N rows. Returns, per
// row, the value the literal stores in that cell, and the element address
// (identifying table and index).
func TableRows(pth Path) (rows []ssa.Value, cell *ssa.IndexAddr, ok bool) {
	u, isU := pth.Root.(*ssa.UnOp)
	if !isU || u.Op != token.MUL || len(pth.Fields) > 1 {
		return nil, nil, false
	}
	ia, isIA := u.X.(*ssa.IndexAddr)
	if !isIA {
		return nil, nil, false
	}
	n, isLit := LiteralTableLen(ia.X)
	if !isLit || n < 1 {
		return nil, nil, false
	}
	if _, isConst := ia.Index.(*ssa.Const); isConst {
		return nil, nil, false
	}
	al := ia.X.(*ssa.Slice).X.(*ssa.Alloc)
	rows = make([]ssa.Value, n)
	for _, ref := range *al.Referrers() {
		ra, isRA := ref.(*ssa.IndexAddr)
		if !isRA {
			continue
		}
		k, isK := ConstInt(ra.Index)
		if !isK || k < 0 || k >= n {
			continue
		}
		for _, r2 := range *ra.Referrers() {
			switch x := r2.(type) {
			case *ssa.Store:
				if x.Addr == ssa.Value(ra) && len(pth.Fields) == 0 {
					if rows[k] != nil {
						return nil, nil, false
					}
					rows[k] = x.Val
				}
			case *ssa.FieldAddr:
				if len(pth.Fields) != 1 || fieldName(x.X.Type(), x.Field) != pth.Fields[0] {
					continue
				}
				for _, r3 := range *x.Referrers() {
					if st, isSt := r3.(*ssa.Store); isSt && st.Addr == ssa.Value(x) {
						if rows[k] != nil {
							return nil, nil, false
						}
						rows[k] = st.Val
					}
				}
			}
		}
	}
	for _, rv := range rows {
		if rv == nil {
			return nil, nil, false
		}
	}
	return rows, ia, true
}

var fieldStoreCount map[string]int

// forwardedField: the single value stored into field name of the local struct
// al, provided no other store to that field of that struct type exists anywhere
// in the module (so a method or helper handed the struct cannot have changed it).
func forwardedField(al *ssa.Alloc, name string) ssa.Value {
	pt, ok := al.Type().Underlying().(*types.Pointer)
	if !ok {
		return nil
	}
	named, ok := pt.Elem().(*types.Named)
	if !ok || named.Obj().Pkg() == nil || !strings.HasPrefix(named.Obj().Pkg().Path(), ModulePath) {
		return nil
	}
	if _, isStruct := named.Underlying().(*types.Struct); !isStruct {
		return nil
	}
	// only unexported helper types: messages and API types are roots in their own right
	if named.Obj().Exported() {
		return nil
	}
	if CurProg == nil {
		return nil
	}
	if fieldStoreCount == nil {
		fieldStoreCount = map[string]int{}
		for _, fn := range CurProg.ModuleFuncs() {
			for _, b := range fn.Blocks {
				for _, in := range b.Instrs {
					st, isSt := in.(*ssa.Store)
					if !isSt {
						continue
					}
					if fa, isFA := st.Addr.(*ssa.FieldAddr); isFA {
						tn, f := FieldAddrName(fa)
						fieldStoreCount[tn+"."+f]++
					}
				}
			}
		}
	}
	var val ssa.Value
	n := 0
	for _, ref := range *al.Referrers() {
		fa, isFA := ref.(*ssa.FieldAddr)
		if !isFA || fieldName(fa.X.Type(), fa.Field) != name {
			continue
		}
		for _, r2 := range *fa.Referrers() {
			if st, isSt := r2.(*ssa.Store); isSt && st.Addr == ssa.Value(fa) {
				val = st.Val
				n++
			}
		}
		if n == 1 {
			tn, f := FieldAddrName(fa)
			if fieldStoreCount[tn+"."+f] != 1 {
				return nil
			}
		}
	}
	if n != 1 {
		return nil
	}
	return val
}
