package core

import (
	"fmt"
	"go/token"
	"go/types"

	"golang.org/x/tools/go/ssa"
)

// PanicSite is one instruction that can panic at run time for some value of
// its operands.
type PanicSite struct {
	Instr      ssa.Instruction
	Kind       string // index | slice | typeassert | divide | panic
	Desc       string
	Discharged bool
	Why        string
}

// LenAtLeast is the fact "len(x) >= n" for x accepted by m.
func LenAtLeast(name string, m func(Path) bool, n int64) Guard {
	return LenRel(fmt.Sprintf("len(%s)>=%d", name, n), m, func(op token.Token, k int64) int {
		switch op {
		case token.LSS: // len < k : fact on false edge when k >= n
			if k >= n {
				return -1
			}
		case token.LEQ: // len <= k : false edge gives len >= k+1
			if k+1 >= n {
				return -1
			}
		case token.GEQ:
			if k >= n {
				return 1
			}
		case token.GTR:
			if k+1 >= n {
				return 1
			}
		case token.EQL:
			if k >= n {
				return 1
			}
			if k == 0 && n == 1 {
				return -1
			}
		case token.NEQ:
			if k == 0 && n == 1 {
				return 1
			}
			if k >= n {
				return -1
			}
		}
		return 0
	})
}

func arrayLen(t types.Type) (int64, bool) {
	if p, ok := t.Underlying().(*types.Pointer); ok {
		t = p.Elem()
	}
	a, ok := t.Underlying().(*types.Array)
	if !ok {
		return 0, false
	}
	return a.Len(), true
}

// rangeIndexOK recognises the go/ssa range-over-slice/string shape: the index
// is phi(-1, idx)+1 and the access is dominated by the true edge of
// "idx < len(x)".
func rangeIndexOK(idx ssa.Value, x ssa.Value, at *ssa.BasicBlock) bool {
	bo, ok := idx.(*ssa.BinOp)
	if !ok || bo.Op != token.ADD {
		return false
	}
	ph, ok := bo.X.(*ssa.Phi)
	if !ok {
		return false
	}
	if k, ok := ConstInt(bo.Y); !ok || k != 1 {
		return false
	}
	hasInit := false
	for _, e := range ph.Edges {
		if k, ok := ConstInt(e); ok && k == -1 {
			hasInit = true
		} else if e != ssa.Value(bo) {
			return false
		}
	}
	if !hasInit {
		return false
	}
	return boundedBy(idx, x, at)
}

// boundedBy: block at is dominated by the true edge of "idx < len(x)" (or the
// false edge of "idx >= len(x)").
func boundedBy(idx, x ssa.Value, at *ssa.BasicBlock) bool {
	fn := at.Parent()
	for _, b := range fn.Blocks {
		ifi, ok := lastIf(b)
		if !ok {
			continue
		}
		c, ok := ifi.Cond.(*ssa.BinOp)
		if !ok {
			continue
		}
		l, r, op := c.X, c.Y, c.Op
		if lenOf(l, x) && r == idx {
			l, r, op = r, l, flipOp(op)
		}
		if l != idx || !lenOf(r, x) {
			continue
		}
		var t *ssa.BasicBlock
		switch op {
		case token.LSS:
			t = b.Succs[0]
		case token.GEQ:
			t = b.Succs[1]
		default:
			continue
		}
		if len(t.Preds) == 1 && t.Dominates(at) {
			return true
		}
	}
	return false
}

func lenOf(v, x ssa.Value) bool {
	c, ok := v.(*ssa.Call)
	if !ok || CalleeName(c.Common()) != "builtin:len" {
		return false
	}
	a := c.Call.Args[0]
	if a == x {
		return true
	}
	pa, px := PathOf(a), PathOf(x)
	return len(pa.Fields) > 0 && pa.Equal(px)
}

// PanicSites enumerates the run-time panic sites of fn and tries the local
// discharges: constant index into a fixed-size array, range-loop indices,
// index/slice bounds dominated by a length test on the same access path,
// comma-ok assertions. Remaining sites are returned undischarged for the rule
// to judge (container invariants, caller guards).
func PanicSites(p *Prog, fn *ssa.Function) []PanicSite {
	var out []PanicSite
	add := func(in ssa.Instruction, kind, desc string, ok bool, why string) {
		out = append(out, PanicSite{in, kind, desc, ok, why})
	}
	for _, b := range fn.Blocks {
		for _, in := range b.Instrs {
			switch x := in.(type) {
			case *ssa.Panic:
				if !x.Pos().IsValid() {
					// synthesised by go/ssa for a blocking select that matched no case (unreachable)
					continue
				}
				add(x, "panic", "explicit panic", false, "")
			case *ssa.IndexAddr:
				n, isArr := arrayLen(x.X.Type())
				if k, isK := ConstInt(x.Index); isArr && isK && k >= 0 && k < n {
					continue // in-range constant index into a fixed-size array (varargs construction): not a site
				}
				if isArr {
					add(x, "index", "array index "+x.Index.Name(), false, "")
					continue
				}
				if rangeIndexOK(x.Index, x.X, b) {
					add(x, "index", "range element of "+shortVal(x.X), true, "range-loop index bounded by len")
					continue
				}
				if k, isK := ConstInt(x.Index); isK && k >= 0 {
					g := LenAtLeast("x", func(pp Path) bool { return pathSame(pp, PathOf(x.X)) }, k+1)
					res := CutReach(p, fn, g, b)
					if !res.Reachable && len(res.Instances) > 0 {
						add(x, "index", fmt.Sprintf("%s[%d]", shortVal(x.X), k), true, "dominating length test "+res.Instances[0])
						continue
					}
					add(x, "index", fmt.Sprintf("%s[%d]", shortVal(x.X), k), false, "no dominating length test on the same value")
					continue
				}
				if boundedBy(x.Index, x.X, b) {
					add(x, "index", shortVal(x.X)+"[i]", true, "index tested against len")
					continue
				}
				add(x, "index", PathOf(x.X).String()+"["+x.Index.Name()+"]", false, "index not bounded by a length test")
			case *ssa.Index:
				// value-typed array / string index
				if k, isK := ConstInt(x.Index); isK {
					if n, isArr := arrayLen(x.X.Type()); isArr && k >= 0 && k < n {
						continue
					}
				}
				if boundedBy(x.Index, x.X, b) || rangeIndexOK(x.Index, x.X, b) {
					continue
				}
				add(x, "index", x.X.Name()+"["+x.Index.Name()+"]", false, "index not bounded")
			case *ssa.Slice:
				if n, isArr := arrayLen(x.X.Type()); isArr {
					okb := true
					for _, bd := range []ssa.Value{x.Low, x.High, x.Max} {
						if bd == nil {
							continue
						}
						if k, isK := ConstInt(bd); !isK || k < 0 || k > n {
							okb = false
						}
					}
					if okb {
						continue
					}
				}
				if x.Low == nil && x.High == nil && x.Max == nil {
					continue
				}
				// constant bounds on a slice/string: need len >= max(bound)
				var need int64 = -1
				constOnly := true
				for _, bd := range []ssa.Value{x.Low, x.High, x.Max} {
					if bd == nil {
						continue
					}
					if k, isK := ConstInt(bd); isK && k >= 0 {
						if k > need {
							need = k
						}
					} else {
						constOnly = false
					}
				}
				if constOnly && need == 0 {
					continue
				}
				if constOnly {
					g := LenAtLeast("x", func(pp Path) bool { return pathSame(pp, PathOf(x.X)) }, need)
					res := CutReach(p, fn, g, b)
					if !res.Reachable && len(res.Instances) > 0 {
						add(x, "slice", fmt.Sprintf("%s[..%d..]", shortVal(x.X), need), true, "dominating length test "+res.Instances[0])
						continue
					}
					add(x, "slice", fmt.Sprintf("%s[..%d..]", shortVal(x.X), need), false, fmt.Sprintf("no dominating test len >= %d on the sliced value", need))
					continue
				}
				// variable bounds: accept the min(end, len) idiom: low = i (loop var < len), high = phi(i+k, len)
				if sliceBoundsClamped(x, b) {
					add(x, "slice", shortVal(x.X)+"[i:min(i+k,len)]", true, "bounds clamped to len")
					continue
				}
				// s[len(p):] after strings.HasPrefix(s, p)
				if x.High == nil && x.Max == nil {
					if lc, isCall := x.Low.(*ssa.Call); isCall && CalleeName(lc.Common()) == "builtin:len" {
						pfx := Strip(lc.Call.Args[0])
						sv := Strip(x.X)
						g := Guard{Name: "HasPrefix(s, p)", Match: func(cond ssa.Value) (int, bool) {
							hc, ok := cond.(*ssa.Call)
							if ok && CalleeName(hc.Common()) == "strings.HasPrefix" && Strip(hc.Call.Args[0]) == sv && Strip(hc.Call.Args[1]) == pfx {
								return 0, true
							}
							return 0, false
						}}
						res := CutReach(p, fn, g, b)
						if !res.Reachable && len(res.Instances) > 0 {
							add(x, "slice", shortVal(x.X)+"[len(prefix):]", true, "after strings.HasPrefix on the same operands "+res.Instances[0])
							continue
						}
					}
					// s[strings.Index(s, sep)+k:] with 0 <= k <= len(sep), after the index was tested non-negative
					if ic, k, ok := indexPlusConst(x.Low); ok && Strip(ic.Call.Args[0]) == Strip(x.X) {
						if sep, isC := ConstString(ic.Call.Args[1]); isC && k >= 0 && k <= int64(len(sep)) {
							g := Guard{Name: "Index(s, sep) >= 0", Match: func(cond ssa.Value) (int, bool) {
								bo, ok := cond.(*ssa.BinOp)
								if !ok || bo.X != ssa.Value(ic) {
									return 0, false
								}
								kk, isK := ConstInt(bo.Y)
								if !isK {
									return 0, false
								}
								switch {
								case bo.Op == token.LSS && kk == 0, bo.Op == token.EQL && kk == -1, bo.Op == token.LEQ && kk == -1:
									return 1, true // found on the false edge
								case bo.Op == token.GEQ && kk == 0, bo.Op == token.NEQ && kk == -1, bo.Op == token.GTR && kk == -1:
									return 0, true
								}
								return 0, false
							}}
							res := CutReach(p, fn, g, b)
							if !res.Reachable && len(res.Instances) > 0 {
								add(x, "slice", shortVal(x.X)+"[Index(s,sep)+k:]", true, "index tested non-negative "+res.Instances[0])
								continue
							}
						}
					}
				}
				add(x, "slice", shortVal(x.X)+"[lo:hi]", false, "variable slice bounds not recognised as clamped")
			case *ssa.FieldAddr:
				// dereference of a pointer taken out of a map: a missing key yields nil
				if src := mapValueSource(x.X); src != nil {
					base := x.X
					g := NilTest("map value", func(pp Path) bool { return pp.Root == base && len(pp.Fields) == 0 }, false)
					gOk := lookupOkGuard(src)
					res := CutReach(p, fn, AnyOf("non-nil map value or key present", g, gOk), b)
					desc := "field of map value " + shortVal(src.X) + "[...]"
					if !res.Reachable && len(res.Instances) > 0 {
						add(x, "nilmapvalue", desc, true, "dominating nil / presence test "+res.Instances[0])
					} else {
						add(x, "nilmapvalue", desc, false, "a missing key yields a nil pointer that is dereferenced without a nil test on that value")
					}
				}
			case *ssa.TypeAssert:
				if x.CommaOk {
					add(x, "typeassert", fmt.Sprintf("%s.(%s),ok", shortVal(x.X), types.TypeString(x.AssertedType, nil)), true, "comma-ok form")
					continue
				}
				add(x, "typeassert", fmt.Sprintf("%s.(%s)", shortVal(x.X), types.TypeString(x.AssertedType, nil)), false, "")
			case *ssa.BinOp:
				if x.Op == token.QUO || x.Op == token.REM {
					if b, ok := x.X.Type().Underlying().(*types.Basic); ok && b.Info()&types.IsInteger != 0 {
						if k, isK := ConstInt(x.Y); isK && k != 0 {
							continue
						}
						add(x, "divide", "integer division by "+x.Y.Name(), false, "divisor not a non-zero constant")
					}
				}
			}
		}
	}
	return out
}

func pathSame(a, b Path) bool {
	if a.Equal(b) {
		return true
	}
	return false
}

// sliceBoundsClamped recognises value[i:end] where i is a loop variable
// tested "i < len(value)" and end is phi(i+k, len(value)) produced by
// "if end > len(value) { end = len(value) }".
func sliceBoundsClamped(x *ssa.Slice, at *ssa.BasicBlock) bool {
	if x.Low == nil || x.High == nil || x.Max != nil {
		return false
	}
	if !boundedBy(x.Low, x.X, at) {
		return false
	}
	// end := min(i+k, len(value))
	if mc, isCall := x.High.(*ssa.Call); isCall && CalleeName(mc.Common()) == "builtin:min" && len(mc.Call.Args) == 2 {
		var sum, ln ssa.Value
		for _, e := range mc.Call.Args {
			if lenOf(e, x.X) {
				ln = e
			} else {
				sum = e
			}
		}
		if sum == nil || ln == nil {
			return false
		}
		bo, ok := sum.(*ssa.BinOp)
		return ok && bo.Op == token.ADD && (bo.X == x.Low || bo.Y == x.Low)
	}
	ph, ok := x.High.(*ssa.Phi)
	if !ok || len(ph.Edges) != 2 {
		return false
	}
	var sum, ln ssa.Value
	for _, e := range ph.Edges {
		if lenOf(e, x.X) {
			ln = e
		} else {
			sum = e
		}
	}
	if sum == nil || ln == nil {
		return false
	}
	bo, ok := sum.(*ssa.BinOp)
	if !ok || bo.Op != token.ADD || (bo.X != x.Low && bo.Y != x.Low) {
		return false
	}
	// the phi picks len when sum > len
	for _, b := range at.Parent().Blocks {
		ifi, ok := lastIf(b)
		if !ok {
			continue
		}
		c, ok := ifi.Cond.(*ssa.BinOp)
		if ok && c.Op == token.GTR && c.X == sum && lenOf(c.Y, x.X) {
			return true
		}
	}
	return false
}

// ConstSliceNeeds summarises a dependency function: for every constant-bound
// slice/index on a field of parameter pi it returns field -> minimal length.
func ConstSliceNeeds(fn *ssa.Function, pi int) map[string]int64 {
	out := map[string]int64{}
	if fn == nil || pi >= len(fn.Params) {
		return out
	}
	param := fn.Params[pi]
	note := func(x ssa.Value, need int64) {
		pp := PathOf(x)
		if pp.Root == ssa.Value(param) && len(pp.Fields) == 1 && need > out[pp.Fields[0]] {
			out[pp.Fields[0]] = need
		}
	}
	for _, b := range fn.Blocks {
		for _, in := range b.Instrs {
			switch x := in.(type) {
			case *ssa.Slice:
				for _, bd := range []ssa.Value{x.Low, x.High} {
					if bd == nil {
						continue
					}
					if k, ok := ConstInt(bd); ok {
						note(x.X, k)
					}
				}
			case *ssa.IndexAddr:
				if k, ok := ConstInt(x.Index); ok {
					note(x.X, k+1)
				}
			}
		}
	}
	return out
}

// mapValueSource: v is (or, through phis, may be) the pointer-typed result of a
// map lookup; returns one such lookup.
func mapValueSource(v ssa.Value) *ssa.Lookup {
	if _, isPtr := v.Type().Underlying().(*types.Pointer); !isPtr {
		return nil
	}
	seen := map[ssa.Value]bool{}
	var walk func(x ssa.Value) *ssa.Lookup
	walk = func(x ssa.Value) *ssa.Lookup {
		if seen[x] {
			return nil
		}
		seen[x] = true
		switch y := x.(type) {
		case *ssa.Lookup:
			if _, isMap := y.X.Type().Underlying().(*types.Map); isMap && !y.CommaOk {
				return y
			}
		case *ssa.Extract:
			if lk, ok := y.Tuple.(*ssa.Lookup); ok && y.Index == 0 {
				if _, isMap := lk.X.Type().Underlying().(*types.Map); isMap {
					return lk
				}
			}
		case *ssa.Phi:
			for _, e := range y.Edges {
				if lk := walk(e); lk != nil {
					return lk
				}
			}
		}
		return nil
	}
	return walk(v)
}

// lookupOkGuard: the comma-ok result of that lookup is true.
func lookupOkGuard(lk *ssa.Lookup) Guard {
	return Guard{Name: "key present", Match: func(cond ssa.Value) (int, bool) {
		ex, ok := cond.(*ssa.Extract)
		if ok && ex.Tuple == ssa.Value(lk) && ex.Index == 1 {
			return 0, true
		}
		return 0, false
	}}
}

// indexPlusConst: v is strings.Index(s, sep) or that plus a constant.
func indexPlusConst(v ssa.Value) (*ssa.Call, int64, bool) {
	if bo, ok := v.(*ssa.BinOp); ok && bo.Op == token.ADD {
		if k, isK := ConstInt(bo.Y); isK {
			if c, ok := bo.X.(*ssa.Call); ok && CalleeName(c.Common()) == "strings.Index" {
				return c, k, true
			}
		}
		return nil, 0, false
	}
	if c, ok := v.(*ssa.Call); ok && CalleeName(c.Common()) == "strings.Index" {
		return c, 0, true
	}
	return nil, 0, false
}

// IndexPlusConst is exported for rules that recognise the same idiom.
func IndexPlusConst(v ssa.Value) (*ssa.Call, int64, bool) { return indexPlusConst(v) }
