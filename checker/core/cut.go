package core

import (
	"fmt"
	"go/constant"
	"go/token"
	"go/types"
	"sort"
	"strings"

	"golang.org/x/tools/go/ssa"
)

// Guard recognises conditional branches that establish a fact. For a matching
// If instruction it returns the index (0 = true successor, 1 = false
// successor) of the edge taken when the fact HOLDS.
type Guard struct {
	Name  string
	Match func(cond ssa.Value) (succ int, ok bool)
}

// AnyOf is the disjunction of guards: an If matches if any alternative does.
func AnyOf(name string, gs ...Guard) Guard {
	return Guard{Name: name, Match: func(cond ssa.Value) (int, bool) {
		for _, g := range gs {
			if s, ok := g.Match(cond); ok {
				return s, true
			}
		}
		return 0, false
	}}
}

// CutResult is the outcome of a guard-cut reachability query.
type CutResult struct {
	Reachable bool            // sink still reachable with all success edges removed
	Instances []string        // positions of the If instructions that matched
	Witness   []string        // surviving path, one entry per block
	Avoided   int             // number of times a required-effect block stopped the traversal
	Edges     map[[2]int]bool // traversed CFG edges (block indices), filled when no sink is given
}

// skipStartSink: a traversal that starts in the middle of a function does not
// count its own start block as a reached sink.
const skipStartSink = true

type cutState struct {
	block *ssa.BasicBlock
	env   string // canonical encoding of resolved phis
}

// CutReach removes, from fn's control-flow graph, the success edge of every
// If matched by g and reports whether any block in sinks is still reachable
// from the entry. The traversal is sensitive to phis with constant operands:
// when a branch condition is decided by the value a phi takes on the edge by
// which its block was entered, only the consistent successor is followed.
func CutReach(p *Prog, fn *ssa.Function, g Guard, sinks ...*ssa.BasicBlock) CutResult {
	return CutReachAvoid(p, fn, g, nil, sinks...)
}

// CutReachAvoid is CutReach with, in addition, a set of blocks that count as
// "passed through a required effect": they are never entered.
func CutReachAvoid(p *Prog, fn *ssa.Function, g Guard, avoid map[*ssa.BasicBlock]bool, sinks ...*ssa.BasicBlock) CutResult {
	return CutReachFrom(p, fn, nil, g, avoid, sinks...)
}

// CutReachFrom starts the traversal at block start (the function entry when
// nil) with no phi resolved.
func CutReachFrom(p *Prog, fn *ssa.Function, start *ssa.BasicBlock, g Guard, avoid map[*ssa.BasicBlock]bool, sinks ...*ssa.BasicBlock) CutResult {
	var res CutResult
	if fn == nil || len(fn.Blocks) == 0 {
		return res
	}
	instSeen := map[string]bool{}
	loopCompletes := map[*ssa.BasicBlock]bool{}
	isSink := map[*ssa.BasicBlock]bool{}
	for _, s := range sinks {
		isSink[s] = true
	}
	rel := relevantPhis(fn)
	type node struct {
		st     cutState
		env    map[*ssa.Phi]ssa.Value
		parent int
		via    string
		chain  []*ssa.Call               // calls (in enclosing frames) the traversal is inside of
		idx    int                       // instruction index to resume the block at
		rets   map[*ssa.Call]*ssa.Return // helper calls completed on this path -> the return taken
		facts  map[ssa.Value]bool        // values known non-nil (true) / nil (false) from the tests passed on this path
	}
	var nodes []node
	seen := map[cutState]bool{}
	var curFacts map[ssa.Value]bool
	pushAt := func(b *ssa.BasicBlock, env map[*ssa.Phi]ssa.Value, parent int, via string, chain []*ssa.Call, idx int, rets map[*ssa.Call]*ssa.Return) {
		st := cutState{b, encodeEnv(env) + encodeFrames(chain, idx, rets) + encodeFacts(curFacts)}
		if seen[st] {
			return
		}
		seen[st] = true
		nodes = append(nodes, node{st, env, parent, via, chain, idx, rets, curFacts})
	}
	if start == nil {
		start = fn.Blocks[0]
	}
	curFacts = StartFacts
	pushAt(start, map[*ssa.Phi]ssa.Value{}, -1, "start", nil, StartIdx, nil)
	for qi := 0; qi < len(nodes); qi++ {
		n := nodes[qi]
		b := n.st.block
		curFacts = n.facts
		savedNilFacts := nilFacts
		nilFacts = n.facts
		push := func(sb *ssa.BasicBlock, env map[*ssa.Phi]ssa.Value, parent int, via string) {
			pushAt(sb, env, parent, via, n.chain, 0, n.rets)
		}
		stop := false
		var result *CutResult
		withFrames(n.chain, n.rets, func() {
			// a sink block is reached at its start - except a block that ends in a
			// return and first calls helpers that the traversal enters ("return
			// check(x)"): the sink is then the return itself, reached when the last
			// helper has returned, and only if the error it returns can be nil
			sinkNow := false
			if isSink[b] && !(qi == 0 && start != fn.Blocks[0] && skipStartSink) {
				ret, endsInReturn := b.Instrs[len(b.Instrs)-1].(*ssa.Return)
				pending := false
				for k := n.idx; k < len(b.Instrs); k++ {
					if call, isCall := b.Instrs[k].(*ssa.Call); isCall && descendable(call, fn, n.chain) != nil {
						pending = true
					}
				}
				hadHelpers := false
				for k := 0; k < len(b.Instrs); k++ {
					if call, isCall := b.Instrs[k].(*ssa.Call); isCall && descendable(call, fn, n.chain) != nil {
						hadHelpers = true
					}
				}
				switch {
				case endsInReturn && hadHelpers:
					if !pending {
						sinkNow = true
						if ei := ErrorResultIndex(b.Parent().Signature); ei >= 0 && ei < len(ret.Results) {
							if op, r2, ok := boundResult(ret.Results[ei]); ok && ValueErrKind(op, r2.Block()) == ErrNonNil {
								sinkNow = false // this path returns the helper's error
							}
						}
					}
				default:
					sinkNow = n.idx == 0
				}
			}
			if sinkNow {
				res.Reachable = true
				// reconstruct
				var path []string
				for i := qi; i >= 0; i = nodes[i].parent {
					nb := nodes[i].st.block
					path = append(path, fmt.Sprintf("b%d(%s) %s", nb.Index, blockPos(p, nb), nodes[i].via))
				}
				for i, j := 0, len(path)-1; i < j; i, j = i+1, j-1 {
					path[i], path[j] = path[j], path[i]
				}
				res.Witness = path
				result = &res
				return
			}
			// helper calls in this block: continue inside the helper, with its
			// parameters standing for the arguments; the block resumes after the
			// call when the helper returns
			if nestedLoopProbe == 0 || true {
				for k := n.idx; k < len(b.Instrs); k++ {
					call, isCall := b.Instrs[k].(*ssa.Call)
					if !isCall {
						continue
					}
					h := descendable(call, fn, n.chain)
					if h == nil {
						continue
					}
					entry := h.Blocks[0]
					if avoid[entry] || (AvoidHook != nil && AvoidHook(entry)) {
						res.Avoided++
					} else {
						pushAt(entry, n.env, qi, "call "+h.Name(), append(append([]*ssa.Call{}, n.chain...), call), 0, n.rets)
					}
					stop = true
					return
				}
			}
			// return from a helper: resume the caller after the call, remembering which return was taken
			if ret, isRet := b.Instrs[len(b.Instrs)-1].(*ssa.Return); isRet && len(n.chain) > 0 {
				call := n.chain[len(n.chain)-1]
				cb := call.Block()
				ci := 0
				for k, in := range cb.Instrs {
					if in == ssa.Instruction(call) {
						ci = k
					}
				}
				rets := map[*ssa.Call]*ssa.Return{}
				for k, v := range n.rets {
					rets[k] = v
				}
				rets[call] = ret
				pushAt(cb, n.env, qi, "return from "+b.Parent().Name(), n.chain[:len(n.chain)-1], ci+1, rets)
				stop = true
				return
			}
			succs := b.Succs
			allowed := make([]bool, len(succs))
			for i := range allowed {
				allowed[i] = true
			}
			via := make([]string, len(succs))
			if ifi, ok := lastIf(b); ok {
				via[0], via[1] = "T:"+condText(ifi), "F:"+condText(ifi)
				if val, known := evalCond(ifi.Cond, n.env); known {
					if val {
						allowed[1] = false
					} else {
						allowed[0] = false
					}
				}
				s, isCut := MatchCond(g, ifi.Cond, n.env)
				via2 := ""
				if !isCut {
					if s2, ok, hname := summaryMatch(p, g, ifi.Cond, n.env); ok {
						s, isCut, via2 = s2, true, " (established inside "+hname+")"
					}
				}
				if isCut {
					allowed[s] = false
					key := blockPos(p, b) + "/" + condText(ifi) + via2
					if !instSeen[key] {
						instSeen[key] = true
						res.Instances = append(res.Instances, key)
					}
				}
			}
			// a range loop over a non-empty literal table runs its body at least
			// once before the loop is left through the header: the exit edge is
			// feasible only if, under the same cut, an iteration can complete
			if len(succs) == 2 && allowed[1] && literalRangeHeader(b) && nestedLoopProbe == 0 {
				key := b
				done, known := loopCompletes[key]
				if !known {
					// every row's iteration must be able to complete
					ll, _ := LiteralLoopOf(succs[0])
					done = true
					probe := func() {
						nestedLoopProbe++
						inner := CutReachFrom(p, b.Parent(), succs[0], g, avoid)
						nestedLoopProbe--
						completes := false
						for e := range inner.Edges {
							if e[1] == b.Index && e[0] != b.Index {
								if pb := b.Parent().Blocks[e[0]]; b.Dominates(pb) {
									completes = true
								}
							}
						}
						if !completes {
							done = false
						}
						for _, k := range inner.Instances {
							if !instSeen[k] {
								instSeen[k] = true
								res.Instances = append(res.Instances, k)
							}
						}
					}
					if _, bound := rowBind[ll.Table]; ll.Header == b && ll.Rows > 0 && !bound {
						for k := 0; k < ll.Rows; k++ {
							WithRow(ll.Table, k, probe)
						}
					} else {
						probe()
					}
					loopCompletes[key] = done
				}
				if !done {
					allowed[1] = false
				}
			}
			for i, s := range succs {
				if !allowed[i] {
					continue
				}
				if (avoid[s] || (AvoidHook != nil && AvoidHook(s))) && !isSink[s] {
					res.Avoided++
					continue
				}
				if len(sinks) == 0 && len(n.chain) == 0 {
					if res.Edges == nil {
						res.Edges = map[[2]int]bool{}
					}
					res.Edges[[2]int{b.Index, s.Index}] = true
				}
				env := n.env
				// resolve phis of s for the edge b->s
				var predIdx = -1
				cnt := 0
				for pi, pb := range s.Preds {
					if pb == b {
						cnt++
						if predIdx < 0 {
							predIdx = pi
						}
					}
				}
				// If b appears twice in s.Preds (both If edges to the same block),
				// use the successor position to pick the right pred index.
				if cnt > 1 {
					k := 0
					for pi, pb := range s.Preds {
						if pb == b {
							if k == i {
								predIdx = pi
							}
							k++
						}
					}
				}
				changed := false
				for _, in := range s.Instrs {
					phi, ok := in.(*ssa.Phi)
					if !ok {
						break
					}
					if !rel[phi] {
						continue
					}
					if !changed {
						env = copyEnv(env)
						changed = true
					}
					op := phi.Edges[predIdx]
					// a phi operand that is itself a resolved phi takes that value
					if pp, ok := op.(*ssa.Phi); ok {
						if v, ok := n.env[pp]; ok {
							op = v
						}
					}
					env[phi] = op
				}
				// remember what the edge taken says about a tested value
				curFacts = n.facts
				if ifi, isIf := lastIf(b); isIf && len(succs) == 2 {
					if v, isNil, ok := nilTestOf(ifi.Cond, n.env); ok {
						// the true edge (i == 0) of "v == nil" means nil
						nonNil := (i == 0) != isNil
						if cur, have := n.facts[v]; !have || cur != nonNil {
							nf := make(map[ssa.Value]bool, len(n.facts)+1)
							for k, x := range n.facts {
								nf[k] = x
							}
							nf[v] = nonNil
							curFacts = nf
						}
					}
				}
				push(s, env, qi, via[i])
				curFacts = n.facts
			}
		})
		nilFacts = savedNilFacts
		_ = stop
		if result != nil {
			return *result
		}
	}
	return res
}

// MatchCond applies a guard to a branch condition after resolving phis that
// the environment fixes (short-circuit && / || lowered to phis in switch
// cases) and stripping negations.
func MatchCond(g Guard, cond ssa.Value, env map[*ssa.Phi]ssa.Value) (int, bool) {
	flip := false
	for i := 0; i < 6; i++ {
		switch x := cond.(type) {
		case *ssa.Phi:
			if v, ok := env[x]; ok && v != cond {
				cond = v
				continue
			}
		case *ssa.UnOp:
			if x.Op == token.NOT {
				flip = !flip
				cond = x.X
				continue
			}
		}
		break
	}
	s, ok := g.Match(cond)
	if !ok {
		return 0, false
	}
	if flip {
		s = 1 - s
	}
	return s, true
}

func copyEnv(e map[*ssa.Phi]ssa.Value) map[*ssa.Phi]ssa.Value {
	n := make(map[*ssa.Phi]ssa.Value, len(e)+2)
	for k, v := range e {
		n[k] = v
	}
	return n
}

func encodeEnv(e map[*ssa.Phi]ssa.Value) string {
	if len(e) == 0 {
		return ""
	}
	var parts []string
	for k, v := range e {
		// only constants (and definitely-non-nil producers) influence branching
		parts = append(parts, k.Name()+"="+envValKey(v))
	}
	sort.Strings(parts)
	return strings.Join(parts, ",")
}

func envValKey(v ssa.Value) string {
	if c, ok := v.(*ssa.Const); ok {
		return "c:" + c.String()
	}
	return "v:" + v.Name()
}

func lastIf(b *ssa.BasicBlock) (*ssa.If, bool) {
	if len(b.Instrs) == 0 {
		return nil, false
	}
	i, ok := b.Instrs[len(b.Instrs)-1].(*ssa.If)
	return i, ok
}

func blockPos(p *Prog, b *ssa.BasicBlock) string {
	for _, in := range b.Instrs {
		if in.Pos().IsValid() {
			return p.Pos(in.Pos())
		}
	}
	return b.Comment
}

func condText(i *ssa.If) string {
	cond := i.Cond
	switch c := cond.(type) {
	case *ssa.BinOp:
		return shortVal(c.X) + c.Op.String() + shortVal(c.Y)
	}
	return shortVal(cond)
}

func shortVal(v ssa.Value) string {
	switch x := v.(type) {
	case *ssa.Const:
		return x.String()
	case *ssa.Call:
		n := CalleeName(x.Common())
		if i := strings.LastIndex(n, "/"); i >= 0 {
			n = n[i+1:]
		}
		return n + "()"
	case *ssa.Extract:
		if c, ok := x.Tuple.(*ssa.Call); ok {
			n := CalleeName(c.Common())
			if i := strings.LastIndex(n, "/"); i >= 0 {
				n = n[i+1:]
			}
			return n + "()#" + itoa(x.Index)
		}
	case *ssa.Phi:
		return "phi(" + x.Comment + ")"
	}
	pth := PathOf(v)
	if len(pth.Fields) > 0 {
		r := "?"
		switch rr := pth.Root.(type) {
		case *ssa.Parameter:
			r = rr.Name()
		case *ssa.FreeVar:
			r = rr.Name()
		default:
			r = rr.Name()
		}
		return r + "." + strings.Join(pth.Fields, ".")
	}
	return v.Name()
}

// relevantPhis are phis that (through !, comparisons with constants) decide a
// branch condition.
func relevantPhis(fn *ssa.Function) map[*ssa.Phi]bool {
	rel := map[*ssa.Phi]bool{}
	var walk func(v ssa.Value, depth int)
	walk = func(v ssa.Value, depth int) {
		if depth > 4 {
			return
		}
		switch x := v.(type) {
		case *ssa.Phi:
			if !rel[x] {
				rel[x] = true
				for _, e := range x.Edges {
					if pp, ok := e.(*ssa.Phi); ok {
						walk(pp, depth+1)
					}
				}
			}
		case *ssa.UnOp:
			if x.Op == token.NOT {
				walk(x.X, depth+1)
			}
		case *ssa.BinOp:
			walk(x.X, depth+1)
			walk(x.Y, depth+1)
		case *ssa.ChangeInterface:
			walk(x.X, depth+1)
		case *ssa.MakeInterface:
			walk(x.X, depth+1)
		}
	}
	for _, b := range fn.Blocks {
		if ifi, ok := lastIf(b); ok {
			walk(ifi.Cond, 0)
		}
	}
	return rel
}

func definitelyNonNil(v ssa.Value) bool {
	switch x := v.(type) {
	case *ssa.Alloc, *ssa.MakeInterface, *ssa.MakeClosure, *ssa.MakeSlice, *ssa.MakeMap, *ssa.MakeChan, *ssa.Function, *ssa.FieldAddr, *ssa.IndexAddr:
		return true
	case *ssa.Const:
		return x.Value != nil
	}
	return false
}

// evalCond evaluates a branch condition under the resolved phi environment.
func evalCond(c ssa.Value, env map[*ssa.Phi]ssa.Value) (val, known bool) {
	// the boolean result of a helper traversed on this path is the operand it returned
	if op, _, ok := boundResult(c); ok && op != c {
		return evalCond(op, env)
	}
	switch x := c.(type) {
	case *ssa.Const:
		return ConstBool(x)
	case *ssa.Phi:
		if v, ok := env[x]; ok {
			if _, isPhi := v.(*ssa.Phi); isPhi {
				return false, false
			}
			return evalCond(v, env)
		}
	case *ssa.UnOp:
		if x.Op == token.NOT {
			v, k := evalCond(x.X, env)
			return !v, k
		}
	case *ssa.BinOp:
		if x.Op != token.EQL && x.Op != token.NEQ {
			return false, false
		}
		l, r := resolve(x.X, env), resolve(x.Y, env)
		// the error result of a helper that was traversed on this path: the
		// return that was taken says whether it is nil
		for _, side := range []*ssa.Value{&l, &r} {
			if op, ret, ok := boundResult(*side); ok {
				other := r
				if side == &r {
					other = l
				}
				if IsNilConst(other) {
					switch ValueErrKind(op, ret.Block()) {
					case ErrNilConst:
						return x.Op == token.EQL, true
					case ErrNonNil:
						return x.Op == token.NEQ, true
					}
				}
				if c, isConst := resolve(op, env).(*ssa.Const); isConst {
					*side = c
				}
			}
		}
		if len(nilFacts) > 0 {
			for _, pair := range [][2]ssa.Value{{l, r}, {r, l}} {
				if IsNilConst(pair[1]) {
					if nn, have := nilFacts[stripIface(pair[0])]; have {
						return (x.Op == token.NEQ) == nn, true
					}
				}
			}
		}
		if rv, ok := RowValue(l); ok {
			l = rv
		}
		if rv, ok := RowValue(r); ok {
			r = rv
		}
		eq, k := constEqual(l, r)
		if !k {
			return false, false
		}
		if x.Op == token.NEQ {
			return !eq, true
		}
		return eq, true
	}
	// a boolean cell of a literal table, under a row binding
	if rv, ok := RowValue(c); ok {
		if _, isConst := rv.(*ssa.Const); isConst {
			return evalCond(rv, env)
		}
	}
	return false, false
}

func resolve(v ssa.Value, env map[*ssa.Phi]ssa.Value) ssa.Value {
	for i := 0; i < 4; i++ {
		switch x := v.(type) {
		case *ssa.Phi:
			if r, ok := env[x]; ok && r != v {
				v = r
				continue
			}
		case *ssa.ChangeInterface:
			v = x.X
			continue
		}
		break
	}
	return v
}

func constEqual(a, b ssa.Value) (eq, known bool) {
	ca, aok := a.(*ssa.Const)
	cb, bok := b.(*ssa.Const)
	if aok && bok {
		if ca.Value == nil || cb.Value == nil {
			return ca.Value == nil && cb.Value == nil, true
		}
		if ca.Value.Kind() == cb.Value.Kind() {
			return constant.Compare(ca.Value, token.EQL, cb.Value), true
		}
		return false, false
	}
	if aok && ca.Value == nil && definitelyNonNil(b) {
		return false, true
	}
	if bok && cb.Value == nil && definitelyNonNil(a) {
		return false, true
	}
	return false, false
}

// BlockOf returns the basic block of an instruction.
func BlockOf(in ssa.Instruction) *ssa.BasicBlock { return in.Block() }

// Returns lists the Return instructions of fn.
func Returns(fn *ssa.Function) []*ssa.Return {
	var out []*ssa.Return
	for _, b := range fn.Blocks {
		if len(b.Instrs) == 0 {
			continue
		}
		if r, ok := b.Instrs[len(b.Instrs)-1].(*ssa.Return); ok {
			out = append(out, r)
		}
	}
	return out
}

// ErrKind classifies the error operand of a return.
type ErrKind int

const (
	ErrNilConst ErrKind = iota // literally nil
	ErrNonNil                  // provably non-nil at the return
	ErrUnknown                 // may be nil or not
)

// ReturnErrKind classifies result i of a Return.
func ReturnErrKind(r *ssa.Return, i int) ErrKind {
	if i < 0 || i >= len(r.Results) {
		return ErrUnknown
	}
	v := ReturnOperand(r, i)
	return ValueErrKind(v, r.Block())
}

// ValueErrKind classifies an error-typed value as seen from block at.
func ValueErrKind(v ssa.Value, at *ssa.BasicBlock) ErrKind {
	v0 := v
	for {
		if ci, ok := v0.(*ssa.ChangeInterface); ok {
			v0 = ci.X
			continue
		}
		break
	}
	if IsNilConst(v0) {
		return ErrNilConst
	}
	switch x := v0.(type) {
	case *ssa.MakeInterface:
		return ErrNonNil
	case *ssa.Extract:
		if c, ok := x.Tuple.(*ssa.Call); ok && helperAlwaysErrors(c, x.Index) {
			return ErrNonNil
		}
	case *ssa.Call:
		if helperAlwaysErrors(x, 0) {
			return ErrNonNil
		}
		switch CalleeName(x.Common()) {
		case "fmt.Errorf", "errors.New":
			return ErrNonNil
		case "errors.Join":
			// non-nil as soon as one joined error is non-nil
			if len(x.Call.Args) == 1 {
				for _, e := range SliceLiteralElems(x.Call.Args[0]) {
					if ValueErrKind(e, at) == ErrNonNil {
						return ErrNonNil
					}
				}
			}
		}
	case *ssa.UnOp:
		if g, ok := x.X.(*ssa.Global); ok && x.Op == token.MUL && strings.HasPrefix(g.Name(), "Err") {
			return ErrNonNil // package-level sentinel error
		}
	case *ssa.Phi:
		all := true
		for _, e := range x.Edges {
			if ValueErrKind(e, at) != ErrNonNil {
				all = false
			}
		}
		if all {
			return ErrNonNil
		}
	}
	if KnownNonNilAt(v0, at) {
		return ErrNonNil
	}
	return ErrUnknown
}

// KnownNonNilAt reports whether block at is dominated by the non-nil edge of a
// test "v != nil" / "v == nil".
func KnownNonNilAt(v ssa.Value, at *ssa.BasicBlock) bool {
	fn := at.Parent()
	for _, b := range fn.Blocks {
		ifi, ok := lastIf(b)
		if !ok {
			continue
		}
		bo, ok := ifi.Cond.(*ssa.BinOp)
		if !ok || (bo.Op != token.NEQ && bo.Op != token.EQL) {
			continue
		}
		var other ssa.Value
		if bo.X == v {
			other = bo.Y
		} else if bo.Y == v {
			other = bo.X
		} else {
			continue
		}
		if !IsNilConst(other) {
			continue
		}
		succ := 0
		if bo.Op == token.EQL {
			succ = 1
		}
		t := b.Succs[succ]
		if len(t.Preds) == 1 && t.Dominates(at) {
			return true
		}
	}
	return false
}

// SuccessReturns lists returns whose error result may be nil.
func SuccessReturns(fn *ssa.Function) []*ssa.Return {
	idx := ErrorResultIndex(fn.Signature)
	var out []*ssa.Return
	for _, r := range Returns(fn) {
		if idx < 0 || ReturnErrKind(r, idx) != ErrNonNil {
			out = append(out, r)
		}
	}
	return out
}

// Blocks maps instructions to their blocks.
func Blocks[T ssa.Instruction](ins []T) []*ssa.BasicBlock {
	var out []*ssa.BasicBlock
	for _, i := range ins {
		out = append(out, i.Block())
	}
	return out
}

// SliceLiteralElems returns the values stored into the backing array of a
// slice literal / variadic argument list ([]T{a, b}), or nil.
func SliceLiteralElems(v ssa.Value) []ssa.Value {
	sl, ok := v.(*ssa.Slice)
	if !ok {
		return nil
	}
	al, ok := sl.X.(*ssa.Alloc)
	if !ok {
		return nil
	}
	var out []ssa.Value
	for _, ref := range *al.Referrers() {
		ia, ok := ref.(*ssa.IndexAddr)
		if !ok {
			continue
		}
		for _, r2 := range *ia.Referrers() {
			if st, ok := r2.(*ssa.Store); ok && st.Addr == ia {
				out = append(out, st.Val)
			}
		}
	}
	return out
}

// ReturnOperand returns result i of a return, seeing through the result slot
// go/ssa introduces in functions with defers ("*slot = v; rundefers; t = *slot;
// return t").
func ReturnOperand(r *ssa.Return, i int) ssa.Value {
	v := r.Results[i]
	u, ok := v.(*ssa.UnOp)
	if !ok || u.Op != token.MUL {
		return v
	}
	al, ok := u.X.(*ssa.Alloc)
	if !ok {
		return v
	}
	var last ssa.Value
	for _, in := range r.Block().Instrs {
		if st, ok := in.(*ssa.Store); ok && st.Addr == ssa.Value(al) {
			last = st.Val
		}
	}
	if last != nil {
		return last
	}
	return v
}

// summaryMatch implements guard summaries: when a branch tests the error (or
// boolean) result of a call to a module-internal helper, the fact g holds on
// the helper's success edge if, inside the helper, every success return is cut
// by g - evaluated with the helper's parameters standing for the call's
// arguments. Depth-bounded.
func summaryMatch(p *Prog, g Guard, cond ssa.Value, env map[*ssa.Phi]ssa.Value) (succ int, ok bool, helper string) {
	if summaryDepth >= MaxSummaryDepth {
		return 0, false, ""
	}
	flip := false
	for i := 0; i < 6; i++ {
		switch x := cond.(type) {
		case *ssa.Phi:
			if v, has := env[x]; has && v != cond {
				cond = v
				continue
			}
		case *ssa.UnOp:
			if x.Op == token.NOT {
				flip = !flip
				cond = x.X
				continue
			}
		}
		break
	}
	fin := func(s int) int {
		if flip {
			return 1 - s
		}
		return s
	}
	switch c := cond.(type) {
	case *ssa.BinOp:
		if c.Op != token.NEQ && c.Op != token.EQL {
			return 0, false, ""
		}
		var ev ssa.Value
		switch {
		case IsNilConst(c.Y):
			ev = c.X
		case IsNilConst(c.X):
			ev = c.Y
		default:
			return 0, false, ""
		}
		srcs := errSources(ev)
		if len(srcs) != 1 {
			return 0, false, ""
		}
		call := srcs[0]
		h := ModuleCallee(call.Common())
		if h == nil {
			return 0, false, ""
		}
		idx := ErrorResultIndex(h.Signature)
		holds := helperEstablishes(p, g, call, h, func(r *ssa.Return) bool {
			return idx >= 0 && ReturnErrKind(r, idx) != ErrNonNil
		})
		if !holds {
			return 0, false, ""
		}
		if c.Op == token.NEQ {
			return fin(1), true, FuncName(h)
		}
		return fin(0), true, FuncName(h)
	case *ssa.Call:
		h := ModuleCallee(c.Common())
		if h == nil || h.Signature.Results().Len() != 1 {
			return 0, false, ""
		}
		// a boolean expression helper ("return a && !b"): the fact holds on
		// the caller's edge for the value that implies it
		if rets := Returns(h); len(rets) >= 1 {
			nonConst := 0
			for _, rt := range rets {
				if _, isConst := ConstBool(ReturnOperand(rt, 0)); !isConst {
					nonConst++
				}
			}
			if nonConst > 0 {
				// every return that can yield `want` must imply the fact: a constant of the
				// other value is vacuous, a constant `want` needs its block cut, an
				// expression must imply it
				for _, want := range []bool{true, false} {
					holds := true
					some := false
					WithSubst(FrameSubst(c.Common(), h), func() {
						summaryDepth++
						defer func() { summaryDepth-- }()
						for _, rt := range rets {
							rv := ReturnOperand(rt, 0)
							if b, isConst := ConstBool(rv); isConst {
								if b != want {
									continue
								}
								res := CutReach(p, h, g, rt.Block())
								if res.Reachable || len(res.Instances) == 0 {
									holds = false
								} else {
									some = true
								}
								continue
							}
							if boolImplies(p, h, g, rv, want, 0) {
								some = true
							} else {
								// the expression may still be cut on the way to its return
								res := CutReach(p, h, g, rt.Block())
								if res.Reachable || len(res.Instances) == 0 {
									holds = false
								} else {
									some = true
								}
							}
						}
					})
					if holds && some {
						if want {
							return fin(0), true, FuncName(h)
						}
						return fin(1), true, FuncName(h)
					}
				}
				return 0, false, ""
			}
		}
		for _, want := range []bool{true, false} {
			want := want
			n := 0
			holds := helperEstablishes(p, g, c, h, func(r *ssa.Return) bool {
				b, isB := ConstBool(ReturnOperand(r, 0))
				if !isB {
					// a non-constant boolean result may be either value
					n = -1 << 20
					return true
				}
				if b == want {
					n++
				}
				return b == want
			})
			if holds && n > 0 {
				if want {
					return fin(0), true, FuncName(h)
				}
				return fin(1), true, FuncName(h)
			}
		}
	}
	return 0, false, ""
}

// helperEstablishes: inside h (parameters bound to the call's arguments) every
// return selected by sel is cut by g, and g has at least one instance there.
func helperEstablishes(p *Prog, g Guard, call *ssa.Call, h *ssa.Function, sel func(*ssa.Return) bool) bool {
	holds := false
	WithSubst(FrameSubst(call.Common(), h), func() {
		summaryDepth++
		defer func() { summaryDepth-- }()
		var sinks []*ssa.BasicBlock
		tail := 0
		idx := ErrorResultIndex(h.Signature)
		for _, r := range Returns(h) {
			if !sel(r) {
				continue
			}
			// "return f(...)": the helper succeeds exactly when f does, so the
			// return is as good as the success edge of a test of f's error
			if idx >= 0 && idx < len(r.Results) {
				ev := ReturnOperand(r, idx)
				if len(errSources(ev)) == 1 {
					synth := &ssa.BinOp{Op: token.NEQ, X: ev, Y: ssa.NewConst(nil, ev.Type())}
					if _, ok := MatchCond(g, synth, nil); ok {
						tail++
						continue
					}
					if _, ok, _ := summaryMatch(p, g, synth, nil); ok {
						tail++
						continue
					}
				}
			}
			sinks = append(sinks, r.Block())
		}
		if len(sinks) == 0 {
			holds = tail > 0
			return
		}
		res := CutReach(p, h, g, sinks...)
		holds = !res.Reachable && (len(res.Instances) > 0 || tail > 0)
	})
	return holds
}

var errDepth int

// helperAlwaysErrors: result idx of a call to a module-internal helper is an
// error that is non-nil on every return of the helper (e.g. a log-and-wrap
// helper).
func helperAlwaysErrors(c *ssa.Call, idx int) bool {
	h := ModuleCallee(c.Common())
	if h == nil || errDepth >= MaxSummaryDepth {
		return false
	}
	res := h.Signature.Results()
	if idx >= res.Len() || !IsErrorType(res.At(idx).Type()) {
		return false
	}
	errDepth++
	defer func() { errDepth-- }()
	rets := Returns(h)
	if len(rets) == 0 {
		return false
	}
	for _, r := range rets {
		if ReturnErrKind(r, idx) != ErrNonNil {
			return false
		}
	}
	return true
}

// boolImplies: inside fn, "v evaluates to want" implies the fact g guards.
// v is a condition g matches directly, a negation, or a short-circuit
// conjunction/disjunction lowered to a phi: the phi takes the value want only
// along edges whose operand is not the opposite constant, and along each such
// edge either the operand itself implies the fact or the edge's source block
// is only reachable past a test that does.
func boolImplies(p *Prog, fn *ssa.Function, g Guard, v ssa.Value, want bool, depth int) bool {
	if depth > 4 {
		return false
	}
	switch x := v.(type) {
	case *ssa.Const:
		return false
	case *ssa.UnOp:
		if x.Op == token.NOT {
			return boolImplies(p, fn, g, x.X, !want, depth+1)
		}
		return false
	case *ssa.Phi:
		n := 0
		for i, e := range x.Edges {
			if b, isB := ConstBool(e); isB {
				if b != want {
					continue
				}
				// the constant wanted value: the source block itself must be guarded
			} else if boolImplies(p, fn, g, e, want, depth+1) {
				n++
				continue
			}
			pred := x.Block().Preds[i]
			res := CutReach(p, fn, g, pred)
			if res.Reachable || len(res.Instances) == 0 {
				return false
			}
			n++
		}
		return n > 0
	}
	s, ok := MatchCond(g, v, nil)
	if !ok {
		// a nested helper
		if s2, ok2, _ := summaryMatch(p, g, v, nil); ok2 {
			return (s2 == 0) == want
		}
		return false
	}
	return (s == 0) == want
}

// nestedLoopProbe is non-zero while the body of a literal-table loop is being
// probed (probes do not nest).
var nestedLoopProbe int

// literalRangeHeader: b is the header of "for ... := range <slice literal>"
// with at least one row: if i+1 < len(S) where S slices a local array
// literal that nothing else re-slices.
func literalRangeHeader(b *ssa.BasicBlock) bool {
	ifi, ok := lastIf(b)
	if !ok {
		return false
	}
	bo, ok := ifi.Cond.(*ssa.BinOp)
	if !ok || bo.Op != token.LSS {
		return false
	}
	inc, ok := bo.X.(*ssa.BinOp)
	if !ok || inc.Op != token.ADD {
		return false
	}
	if _, isPhi := inc.X.(*ssa.Phi); !isPhi || inc.X.(*ssa.Phi).Block() != b {
		return false
	}
	if k, isK := ConstInt(inc.Y); !isK || k != 1 {
		return false
	}
	lc, ok := bo.Y.(*ssa.Call)
	if !ok || CalleeName(lc.Common()) != "builtin:len" || len(lc.Call.Args) != 1 {
		return false
	}
	n, ok := LiteralTableLen(lc.Call.Args[0])
	return ok && n >= 1
}

// AvoidHook, when set, marks further blocks as "required effect passed" - it
// may consult the current row binding (an effect that concerns one row of a
// literal-table loop only).
var AvoidHook func(*ssa.BasicBlock) bool

// ---- interprocedural traversal support ----

// InterDepth bounds how many helper frames a traversal enters.
const InterDepth = 3

// curRets: helper calls completed on the path being processed.
var curRets map[*ssa.Call]*ssa.Return

// descendable: call invokes an unexported function, method or closure of the
// root function's package that is not already on the stack: the kind of
// helper a function is split into. Exported functions stay atomic (rules
// anchor in them, and guard summaries still apply).
func descendable(call *ssa.Call, root *ssa.Function, chain []*ssa.Call) *ssa.Function {
	if len(chain) >= InterDepth {
		return nil
	}
	h := ModuleCallee(call.Common())
	if h == nil || h.Blocks == nil || h.Synthetic != "" {
		return nil
	}
	pkgOf := func(f *ssa.Function) *ssa.Package {
		for f.Parent() != nil {
			f = f.Parent()
		}
		return f.Package()
	}
	if pkgOf(h) == nil || pkgOf(h) != pkgOf(root) {
		return nil
	}
	if h.Parent() == nil {
		name := h.Name()
		exported := name != "" && name[0] >= 'A' && name[0] <= 'Z'
		if exported {
			// a method of an unexported type is a helper too
			if recv := h.Signature.Recv(); recv != nil {
				t := recv.Type()
				if pt, ok := t.(*types.Pointer); ok {
					t = pt.Elem()
				}
				if nt, ok := t.(*types.Named); ok && !nt.Obj().Exported() {
					exported = false
				}
			}
		}
		if exported {
			return nil
		}
	}
	if h == root {
		return nil
	}
	for _, c := range chain {
		if ModuleCallee(c.Common()) == h {
			return nil
		}
	}
	return h
}

func encodeFrames(chain []*ssa.Call, idx int, rets map[*ssa.Call]*ssa.Return) string {
	if len(chain) == 0 && idx == 0 && len(rets) == 0 {
		return ""
	}
	var sb strings.Builder
	sb.WriteString("|")
	for _, c := range chain {
		fmt.Fprintf(&sb, "%p>", c)
	}
	fmt.Fprintf(&sb, "@%d", idx)
	if len(rets) > 0 {
		var parts []string
		for c, r := range rets {
			parts = append(parts, fmt.Sprintf("%p=%p", c, r))
		}
		sort.Strings(parts)
		sb.WriteString("|" + strings.Join(parts, ","))
	}
	return sb.String()
}

// withFrames runs f with the substitutions of the call stack (and of the
// helpers already returned from) in force, and the bound returns visible to
// condition evaluation.
func withFrames(chain []*ssa.Call, rets map[*ssa.Call]*ssa.Return, f func()) {
	if len(chain) == 0 && len(rets) == 0 {
		saved := curRets
		curRets = nil
		defer func() { curRets = saved }()
		f()
		return
	}
	m := map[ssa.Value]ssa.Value{}
	// completed helpers first (in source order), so that live frames win
	var done []*ssa.Call
	for c := range rets {
		done = append(done, c)
	}
	sort.Slice(done, func(i, j int) bool { return done[i].Pos() < done[j].Pos() })
	for _, c := range done {
		for k, v := range FrameSubst(c.Common(), ModuleCallee(c.Common())) {
			m[k] = v
		}
	}
	for _, c := range chain {
		for k, v := range FrameSubst(c.Common(), ModuleCallee(c.Common())) {
			m[k] = v
		}
	}
	saved := curRets
	curRets = rets
	defer func() { curRets = saved }()
	WithSubst(m, f)
}

// boundResult: v is a result of a helper call that was traversed on this
// path; returns the operand of the return that was taken.
func boundResult(v ssa.Value) (ssa.Value, *ssa.Return, bool) {
	if len(curRets) == 0 {
		return nil, nil, false
	}
	for i := 0; i < 4; i++ {
		if ci, ok := v.(*ssa.ChangeInterface); ok {
			v = ci.X
			continue
		}
		break
	}
	var call *ssa.Call
	idx := 0
	switch x := v.(type) {
	case *ssa.Extract:
		call, _ = x.Tuple.(*ssa.Call)
		idx = x.Index
	case *ssa.Call:
		call = x
	}
	if call == nil {
		return nil, nil, false
	}
	ret, ok := curRets[call]
	if !ok || idx >= len(ret.Results) {
		return nil, nil, false
	}
	op := ReturnOperand(ret, idx)
	// "return g(x)": the operand is itself the result of a traversed helper
	if op != v {
		if op2, ret2, ok2 := boundResult(op); ok2 {
			return op2, ret2, true
		}
	}
	return op, ret, true
}


// nilFacts: what the tests passed on the path being processed say about values (set per node).
var nilFacts map[ssa.Value]bool

// StartFacts seeds a traversal that starts at a test whose outcome is known;
// StartIdx is the instruction index in the start block to begin at (after the
// call whose result the facts describe).
var StartFacts map[ssa.Value]bool
var StartIdx int

func stripIface(v ssa.Value) ssa.Value {
	for i := 0; i < 4; i++ {
		if ci, ok := v.(*ssa.ChangeInterface); ok {
			v = ci.X
			continue
		}
		break
	}
	return v
}

// nilTestOf: cond is "v == nil" / "v != nil" for a non-constant v (phis resolved
// through env); isNil tells whether the true edge means nil.
func nilTestOf(cond ssa.Value, env map[*ssa.Phi]ssa.Value) (v ssa.Value, isNil bool, ok bool) {
	bo, isBo := cond.(*ssa.BinOp)
	if !isBo || (bo.Op != token.EQL && bo.Op != token.NEQ) {
		return nil, false, false
	}
	l, r := resolve(bo.X, env), resolve(bo.Y, env)
	switch {
	case IsNilConst(r):
		v = l
	case IsNilConst(l):
		v = r
	default:
		return nil, false, false
	}
	v = stripIface(v)
	if _, isConst := v.(*ssa.Const); isConst {
		return nil, false, false
	}
	return v, bo.Op == token.EQL, true
}

func encodeFacts(f map[ssa.Value]bool) string {
	if len(f) == 0 {
		return ""
	}
	var parts []string
	for v, nn := range f {
		parts = append(parts, fmt.Sprintf("%p=%v", v, nn))
	}
	sort.Strings(parts)
	return "#" + strings.Join(parts, ",")
}
