package core

import (
	"golang.org/x/tools/go/ssa"
)

// DeepSite is an instruction found in fn or in a module-internal helper it
// calls (depth-bounded), together with the chain of calls leading to it.
type DeepSite struct {
	Instr ssa.Instruction
	Fn    *ssa.Function         // function containing Instr
	Chain []ssa.CallInstruction // calls from the root function down to Fn (empty when Fn is the root)
}

// Helpers returns the module-internal functions fn calls statically (declared
// functions, methods, closures), excluding fn itself.
func Helpers(fn *ssa.Function) []ssa.CallInstruction {
	var out []ssa.CallInstruction
	for _, ci := range AllCalls(fn) {
		if h := ModuleCallee(ci.Common()); h != nil && h != fn {
			out = append(out, ci)
		}
	}
	return out
}

// DeepFuncs returns fn and the module helpers reachable from it within depth
// call levels (each function once).
func DeepFuncs(fn *ssa.Function, depth int) []*ssa.Function {
	seen := map[*ssa.Function]bool{fn: true}
	out := []*ssa.Function{fn}
	frontier := []*ssa.Function{fn}
	for d := 0; d < depth; d++ {
		var next []*ssa.Function
		for _, f := range frontier {
			for _, ci := range Helpers(f) {
				h := ModuleCallee(ci.Common())
				if !seen[h] {
					seen[h] = true
					out = append(out, h)
					next = append(next, h)
				}
			}
		}
		frontier = next
	}
	return out
}

// DeepFind lists the instructions satisfying pred in fn and in its helpers
// (depth-bounded), one DeepSite per distinct call chain.
func DeepFind(fn *ssa.Function, depth int, pred func(ssa.Instruction) bool) []DeepSite {
	var out []DeepSite
	var walk func(f *ssa.Function, chain []ssa.CallInstruction, d int, onPath map[*ssa.Function]bool)
	walk = func(f *ssa.Function, chain []ssa.CallInstruction, d int, onPath map[*ssa.Function]bool) {
		for _, b := range f.Blocks {
			for _, in := range b.Instrs {
				if pred(in) {
					out = append(out, DeepSite{Instr: in, Fn: f, Chain: append([]ssa.CallInstruction{}, chain...)})
				}
			}
		}
		if d >= depth {
			return
		}
		for _, ci := range Helpers(f) {
			h := ModuleCallee(ci.Common())
			if onPath[h] {
				continue
			}
			onPath[h] = true
			walk(h, append(chain, ci), d+1, onPath)
			delete(onPath, h)
		}
	}
	walk(fn, nil, 0, map[*ssa.Function]bool{fn: true})
	return out
}

// DeepCalls lists calls to the named callees in fn and its helpers.
func DeepCalls(fn *ssa.Function, depth int, names ...string) []DeepSite {
	return DeepFind(fn, depth, func(in ssa.Instruction) bool {
		_, ok := IsCallTo(in, names...)
		return ok
	})
}

// ChainSubst composes the frame substitutions along a call chain.
func ChainSubst(chain []ssa.CallInstruction) map[ssa.Value]ssa.Value {
	m := map[ssa.Value]ssa.Value{}
	for _, ci := range chain {
		for k, v := range FrameSubst(ci.Common(), ModuleCallee(ci.Common())) {
			m[k] = v
		}
	}
	return m
}

// CutDeep decides a must-pass-through obligation for a sink that may live in
// a helper: the obligation is discharged if the guard cuts the sink inside the
// helper (helper parameters standing for the call's arguments), or cuts the
// call site in an enclosing frame (the sink inherits the guards that dominate
// its call site), innermost frame first.
func CutDeep(p *Prog, root *ssa.Function, g Guard, site DeepSite) CutResult {
	frames := []*ssa.Function{root}
	for _, ci := range site.Chain {
		frames = append(frames, ModuleCallee(ci.Common()))
	}
	var first CutResult
	var allInst []string
	for k := len(frames) - 1; k >= 0; k-- {
		var sink *ssa.BasicBlock
		if k == len(frames)-1 {
			sink = site.Instr.Block()
		} else {
			sink = site.Chain[k].Block()
		}
		var res CutResult
		WithSubst(ChainSubst(site.Chain[:k]), func() {
			res = CutReach(p, frames[k], g, sink)
		})
		allInst = append(allInst, res.Instances...)
		if !res.Reachable && len(res.Instances) > 0 {
			res.Instances = allInst
			return res
		}
		if k == len(frames)-1 {
			first = res
		}
	}
	// not discharged in any frame: report the innermost frame's witness; the
	// sink counts as reachable unless it is dead in every frame
	first.Instances = allInst
	first.Reachable = true
	return first
}

// In runs f with the substitutions of a call chain in force.
func (s DeepSite) In(f func()) { WithSubst(ChainSubst(s.Chain), f) }

// SplitFind lists the instructions satisfying pred in fn and in the helpers fn
// was split into: unexported functions, methods and closures of fn's package,
// the same set the guard-cut traversal enters (depth <= InterDepth). stop
// names helpers that are anchors of their own and are not entered.
func SplitFind(fn *ssa.Function, stop func(*ssa.Function) bool, pred func(ssa.Instruction) bool) []DeepSite {
	var out []DeepSite
	var walk func(f *ssa.Function, chain []ssa.CallInstruction, calls []*ssa.Call)
	walk = func(f *ssa.Function, chain []ssa.CallInstruction, calls []*ssa.Call) {
		for _, b := range f.Blocks {
			for _, in := range b.Instrs {
				if pred(in) {
					out = append(out, DeepSite{Instr: in, Fn: f, Chain: append([]ssa.CallInstruction{}, chain...)})
				}
			}
		}
		for _, b := range f.Blocks {
			for _, in := range b.Instrs {
				call, ok := in.(*ssa.Call)
				if !ok {
					continue
				}
				h := descendable(call, fn, calls)
				if h == nil || (stop != nil && stop(h)) {
					continue
				}
				walk(h, append(append([]ssa.CallInstruction{}, chain...), call), append(append([]*ssa.Call{}, calls...), call))
			}
		}
	}
	walk(fn, nil, nil)
	return out
}

// SplitCalls lists calls to the named callees in fn and the helpers it was split into.
func SplitCalls(fn *ssa.Function, stop func(*ssa.Function) bool, names ...string) []DeepSite {
	return SplitFind(fn, stop, func(in ssa.Instruction) bool {
		_, ok := IsCallTo(in, names...)
		return ok
	})
}

// SubstSnapshot copies the substitutions in force (to re-establish the frame
// of a value found during a traversal).
func SubstSnapshot() map[ssa.Value]ssa.Value {
	m := make(map[ssa.Value]ssa.Value, len(substMap))
	for k, v := range substMap {
		m[k] = v
	}
	return m
}
