package core

import (
	"golang.org/x/tools/go/ssa"
)

// Frame substitution: while a callee is analysed on behalf of one call site
// (guard summaries, sinks that live in a helper), its parameters and free
// variables denote the caller's argument values. PathOf and Strip consult this
// map so that guards written against the caller's values keep matching inside
// the helper. The map is flat: parameters of different functions are distinct
// values, so nested frames simply add entries.
var substMap = map[ssa.Value]ssa.Value{}

// CurProg is the program being analysed (used by guard summaries for
// rendering positions).
var CurProg *Prog

var summaryDepth int

// MaxSummaryDepth bounds how many helper levels guard summaries and deep
// sinks descend.
const MaxSummaryDepth = 2

// WithSubst runs f with additional substitutions in force.
func WithSubst(m map[ssa.Value]ssa.Value, f func()) {
	saved := map[ssa.Value]ssa.Value{}
	had := map[ssa.Value]bool{}
	for k, v := range m {
		if old, ok := substMap[k]; ok {
			saved[k] = old
			had[k] = true
		}
		substMap[k] = v
	}
	defer func() {
		for k := range m {
			if had[k] {
				substMap[k] = saved[k]
			} else {
				delete(substMap, k)
			}
		}
	}()
	f()
}

// FrameSubst maps the callee's parameters (and, for closures, free variables)
// to the values supplied at call site c.
func FrameSubst(c *ssa.CallCommon, callee *ssa.Function) map[ssa.Value]ssa.Value {
	m := map[ssa.Value]ssa.Value{}
	if callee == nil {
		return m
	}
	args := c.Args
	for i, p := range callee.Params {
		if i < len(args) {
			m[p] = args[i]
		}
	}
	if mc := closureValue(c.Value); mc != nil {
		for i, fv := range callee.FreeVars {
			if i < len(mc.Bindings) {
				m[fv] = mc.Bindings[i]
			}
		}
	}
	return m
}

// closureValue returns the MakeClosure a function-typed value denotes (directly
// or through a single-store local variable).
func closureValue(v ssa.Value) *ssa.MakeClosure {
	switch x := v.(type) {
	case *ssa.MakeClosure:
		return x
	case *ssa.UnOp:
		if al, ok := x.X.(*ssa.Alloc); ok {
			if sv := SingleStore(al); sv != nil {
				return closureValue(sv)
			}
		}
	case *ssa.Phi:
		// a closure variable assigned once and used in a loop
		var mc *ssa.MakeClosure
		for _, e := range x.Edges {
			if m := closureValue(e); m != nil {
				if mc != nil && mc != m {
					return nil
				}
				mc = m
			}
		}
		return mc
	}
	return nil
}

// ModuleCallee resolves the module function a call invokes statically: a
// declared function or method, or a closure (possibly held in a local
// variable). Returns nil for dependencies, interface calls and dynamic calls.
func ModuleCallee(c *ssa.CallCommon) *ssa.Function {
	if c.IsInvoke() {
		return nil
	}
	fn := c.StaticCallee()
	if fn == nil {
		if mc := closureValue(c.Value); mc != nil {
			fn, _ = mc.Fn.(*ssa.Function)
		}
	}
	if fn == nil || fn.Blocks == nil || !InModule(fn) {
		return nil
	}
	return fn
}

// substituted resolves a parameter / free variable through the frame map.
func substituted(v ssa.Value) (ssa.Value, bool) {
	if len(substMap) == 0 {
		return nil, false
	}
	nv, ok := substMap[v]
	if !ok || nv == v {
		return nil, false
	}
	return nv, true
}
