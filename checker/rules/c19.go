package rules

import (
	"fmt"
	"go/ast"
	"go/token"
	"sort"
	"strings"

	"nechk/core"

	"golang.org/x/tools/go/ssa"
)

func init() { All["C19"] = c19 }

// typeSwitchTable extracts, from a function that type-switches on parameter
// pi, the map asserted-type -> constant string returned on that arm.
func typeSwitchTable(fn *ssa.Function, pi int) (map[string]string, bool) {
	out := map[string]string{}
	param := ssa.Value(fn.Params[pi])
	for _, b := range fn.Blocks {
		ifi, ok := b.Instrs[len(b.Instrs)-1].(*ssa.If)
		if !ok {
			continue
		}
		ex, ok := ifi.Cond.(*ssa.Extract)
		if !ok || ex.Index != 1 {
			continue
		}
		ta, ok := ex.Tuple.(*ssa.TypeAssert)
		if !ok || core.Strip(ta.X) != param {
			continue
		}
		// the arm: follow the true successor to a return of a constant
		arm := b.Succs[0]
		for i := 0; i < 3; i++ {
			if ret, ok := arm.Instrs[len(arm.Instrs)-1].(*ssa.Return); ok {
				if s, ok := core.ConstString(ret.Results[0]); ok {
					out[shortName(ta.AssertedType.String())] = s
				} else {
					return out, false
				}
				break
			}
			if len(arm.Succs) != 1 {
				return out, false
			}
			arm = arm.Succs[0]
		}
	}
	return out, len(out) > 0
}

// admittedTypes lists the types whose comma-ok assertion on parameter pi has
// a true edge that does not lead directly to an error return (type-switch
// arms that accept the message).
func admittedTypes(fn *ssa.Function, pi int) []string {
	param := ssa.Value(fn.Params[pi])
	var out []string
	idx := core.ErrorResultIndex(fn.Signature)
	for _, b := range fn.Blocks {
		ifi, ok := b.Instrs[len(b.Instrs)-1].(*ssa.If)
		if !ok {
			continue
		}
		ex, ok := ifi.Cond.(*ssa.Extract)
		if !ok || ex.Index != 1 {
			continue
		}
		ta, ok := ex.Tuple.(*ssa.TypeAssert)
		if !ok || core.Strip(ta.X) != param {
			continue
		}
		if types, isIface := ta.AssertedType.Underlying().(interface{ NumMethods() int }); isIface && types != nil {
			continue // interface assertions (MessageWithId) are not type-switch arms
		}
		// admitted iff a non-error return is reachable from the true edge without passing another arm's test
		admitted := false
		for x := range reachFrom(b.Succs[0], nil) {
			if ret, ok := x.Instrs[len(x.Instrs)-1].(*ssa.Return); ok {
				if idx < 0 || core.ReturnErrKind(ret, idx) != core.ErrNonNil {
					admitted = true
				}
			}
		}
		if admitted {
			out = append(out, shortName(ta.AssertedType.String()))
		}
	}
	sort.Strings(out)
	return out
}

var subPathFns = map[*ssa.Function]bool{}

func c19(c *Ctx) {
	nodeIdExactMatch(c, "R-C19.10")
	lockPairing(c, "R-C19.9")
	p, r := c.P, c.R
	r.Rule("R-C19.1", "each back end's type-to-sub-path switch covers exactly the message types types.ValidateMessage admits, with distinct non-empty constants none of which is a path-prefix of another; the two back ends' tables are equal; List admits the same set in both back ends, a subset of the table")
	r.Rule("R-C19.2", "Store, Load and Remove of each back end reach their value operation only through successful ValidateMessage and successful sub-path lookup")
	r.Rule("R-C19.3", "in-memory back end: every radix-tree call is classified read or write and runs with the embedded mutex held in a sufficient mode (forward lock-state dataflow, defer-aware); lock state is none at every return")
	r.Rule("R-C19.4", "the absent arm of each back end's load returns the ErrNotFound sentinel itself")
	r.Rule("R-C19.5", "store-once back end: for a node record, delegation to the inner Store is reachable only from the failure edge of a Load of the same ID")
	r.Rule("R-C19.8", "each back end stores proto.Marshal(msg) (a byte snapshot) and its load writes the destination only through proto.Unmarshal, which resets it first")
	r.Rule("R-C19.7", "the file back end writes an entry with a primitive that replaces the previous content (os.WriteFile, os.Create, or os.OpenFile with O_TRUNC), directly or in a package-local helper")
	r.Rule("R-C19.6", "in each back end the entry key of the store, load and remove operations depends on exactly (sub-path, id) plus back-end constants (data-dependence origin set)")
	r.NotDecided = append(r.NotDecided, "map equivalence over operation sequences", "file-system semantics", "concurrency of the file back end")

	val := c.need("R-C19.1", "types", "ValidateMessage")
	if val == nil {
		return
	}
	want := admittedTypes(val, 0)
	if len(want) != 4 {
		r.Unk("R-C19.1", "types.ValidateMessage admitted types", p.Pos(val.Pos()), fmt.Sprintf("extracted %v, expected four message types", want))
	}
	tables := map[string]map[string]string{}
	lists := map[string][]string{}
	for _, be := range []string{"storage/inmem", "storage/file"} {
		sp := c.P.Func(be, "subPathFromMsg")
		if sp == nil {
			// renamed: the package's unexported function from a proto message to (string, error)
			for _, mf := range p.ModuleFuncs() {
				if mf.Pkg != nil && mf.Pkg == c.P.Pkg(be) && mf.Parent() == nil && mf.Signature.Recv() == nil && core.SigKey(mf.Signature) == "(google.golang.org/protobuf/proto.Message)->(string,error)" {
					sp = mf
				}
			}
		}
		if sp == nil {
			sp = c.need("R-C19.1", be, "subPathFromMsg")
		} else {
			r.Fn(core.FuncName(sp))
		}
		subPathFns[sp] = true
		if sp == nil {
			continue
		}
		tab, ok := typeSwitchTable(sp, 0)
		if !ok {
			r.Unk("R-C19.1", be+" sub-path table", p.Pos(sp.Pos()), "cannot extract the type switch")
			continue
		}
		tables[be] = tab
		var have []string
		for t := range tab {
			have = append(have, t)
		}
		sort.Strings(have)
		r.Check(strings.Join(have, ",") == strings.Join(want, ","), "R-C19.1", be+" table covers the admitted types", p.Pos(sp.Pos()), strings.Join(have, ","), "table has "+strings.Join(have, ",")+" but ValidateMessage admits "+strings.Join(want, ","))
		// distinct, non-empty, prefix-free
		var vals []string
		bad := ""
		for t, v := range tab {
			if v == "" {
				bad = "empty sub-path for " + t
			}
			vals = append(vals, v)
		}
		sort.Strings(vals)
		for i := range vals {
			for j := range vals {
				if i != j && (vals[i] == vals[j] || strings.HasPrefix(vals[j], vals[i]+"/")) {
					bad = fmt.Sprintf("sub-paths %q and %q collide", vals[i], vals[j])
				}
			}
		}
		r.Check(bad == "", "R-C19.1", be+" sub-paths distinct and prefix-free", p.Pos(sp.Pos()), strings.Join(vals, ","), bad+": two message types with the same ID would overwrite each other")
		if lf := c.need("R-C19.1", be, "(*Storage).List"); lf != nil {
			lists[be] = admittedTypes(lf, 2)
			sub := true
			for _, t := range lists[be] {
				if _, ok := tab[t]; !ok {
					sub = false
				}
			}
			r.Check(sub && len(lists[be]) > 0, "R-C19.1", be+" List admitted types within the table", p.Pos(lf.Pos()), strings.Join(lists[be], ","), "List admits a type without a sub-path: "+strings.Join(lists[be], ","))
		}
	}
	if len(tables) == 2 {
		a, b := tables["storage/inmem"], tables["storage/file"]
		same := len(a) == len(b)
		for t, v := range a {
			if b[t] != v {
				same = false
			}
		}
		r.Check(same, "R-C19.1", "sub-path tables of the two back ends agree", "", "equal", fmt.Sprintf("inmem %v vs file %v", a, b))
		r.Check(strings.Join(lists["storage/inmem"], ",") == strings.Join(lists["storage/file"], ","), "R-C19.1", "List admitted types of the two back ends agree", "", strings.Join(lists["storage/inmem"], ","), fmt.Sprintf("inmem %v vs file %v", lists["storage/inmem"], lists["storage/file"]))
	}

	// R-C19.2 / R-C19.6 / R-C19.4
	for _, be := range []string{"storage/inmem", "storage/file"} {
		for _, op := range []string{"Store", "Load", "Remove"} {
			fn := c.need("R-C19.2", be, "(*Storage)."+op)
			if fn == nil {
				continue
			}
			name := core.FuncName(fn)
			var valueOp *ssa.Call
			for _, ci := range core.AllCalls(fn) {
				cal := ci.Common().StaticCallee()
				// the value operation: a helper method of the same type taking (ctx, id, subPath, ...)
				if cal != nil && cal.Signature.Recv() != nil && cal.Pkg == fn.Pkg && cal != fn && (strings.HasSuffix(cal.Name(), "Value") || strings.HasPrefix(core.SigKey(cal.Signature), "(context.Context,string,string")) {
					valueOp, _ = ci.(*ssa.Call)
				}
			}
			if valueOp == nil {
				r.Unk("R-C19.2", name+" value operation", p.Pos(fn.Pos()), "no call to a *Value helper")
				continue
			}
			gs := []core.Guard{
				core.ErrNil("ValidateMessage", core.CallNamed(typesPkg+".ValidateMessage")),
				core.ErrNil("subPathFromMsg", func(x *ssa.Call) bool {
					cal := x.Common().StaticCallee()
					return cal != nil && (cal.Name() == "subPathFromMsg" || subPathFns[cal])
				}),
			}
			for _, g := range gs {
				res := core.CutReach(p, fn, g, valueOp.Block())
				r.CutOb(p, "R-C19.2", name+" guard="+g.Name, p.Pos(valueOp.Pos()), res, g)
			}
			// the id handed down is the message's own id
			idOK := false
			msgParam := ssa.Value(fn.Params[2])
			var carriesId func(v ssa.Value, depth int) bool
			carriesId = func(v ssa.Value, depth int) bool {
				found := false
				eachValue(v, func(x ssa.Value) {
					x = core.Strip(x)
					if ic, _ := core.CallResult(x); ic != nil && ic.Common().IsInvoke() && ic.Common().Method.Name() == "GetId" && core.Strip(ic.Common().Value) == msgParam {
						found = true
						return
					}
					// a small key struct built from the message: one of its fields is the id
					if u, isU := x.(*ssa.UnOp); isU && depth < 2 {
						if al, isAl := u.X.(*ssa.Alloc); isAl {
							for _, fs := range fieldStores(al) {
								if carriesId(fs.Val, depth+1) {
									found = true
								}
							}
						}
					}
				})
				return found
			}
			for _, a := range valueOp.Call.Args {
				if carriesId(a, 0) {
					idOK = true
				}
			}
			r.Check(idOK, "R-C19.2", name+" uses the message's own ID", p.Pos(valueOp.Pos()), "msg.GetId()", "the value operation is not keyed by the message's own ID")
			// R-C19.6 in the helper
			helper := valueOp.Common().StaticCallee()
			r.Fn(core.FuncName(helper))
			c19Key(c, be, helper)
		}
	}
	// R-C19.8 a stored value is a snapshot and a load replaces the destination
	for _, be := range []string{"storage/inmem", "storage/file"} {
		if sv := c.need("R-C19.8", be, "(*Storage).storeValue"); sv != nil {
			msgP := ssa.Value(sv.Params[len(sv.Params)-1])
			okSnap := false
			why := "the stored value is not the marshalled bytes of the message"
			var marshalled ssa.Value
			for _, mc := range callsNamed(sv, "google.golang.org/protobuf/proto.Marshal") {
				if core.Strip(mc.Call.Args[0]) == msgP {
					marshalled = extractOf(mc, 0)
				}
			}
			for _, ci := range core.AllCalls(sv) {
				cn := core.CalleeName(ci.Common())
				var val ssa.Value
				switch {
				case strings.HasSuffix(cn, "go-radix.Tree).Insert"):
					val = ci.Common().Args[2]
				case cn == "os.WriteFile":
					val = ci.Common().Args[1]
				default:
					if cal := ci.Common().StaticCallee(); cal != nil && cal.Pkg == sv.Pkg && cal.Signature.Recv() == nil && fileOpOnParam(cal) >= 0 && len(ci.Common().Args) > 1 {
						val = ci.Common().Args[1]
					}
				}
				if val != nil {
					okSnap = marshalled != nil && core.Strip(val) == marshalled
					if !okSnap {
						why = "the value kept by the back end is " + core.ValueName(core.Strip(val)) + ", not proto.Marshal(msg): it shares memory with the caller's message or is not a byte snapshot"
					}
				}
			}
			r.Check(okSnap, "R-C19.8", core.FuncName(sv)+" stores a snapshot", p.Pos(sv.Pos()), "stores proto.Marshal(msg)", why)
		}
		if lv := c.need("R-C19.8", be, "(*Storage).loadValue"); lv != nil {
			resP := ssa.Value(lv.Params[len(lv.Params)-1])
			nW, bad := destWrites(lv, resP, 0)
			r.Check(nW >= 1 && bad == "", "R-C19.8", core.FuncName(lv)+" replaces the destination", p.Pos(lv.Pos()), "result is written only by proto.Unmarshal (which resets it)", "the destination message is written by "+bad+" (or never by proto.Unmarshal): fields of a previously populated message survive the load")
		}
	}

	// R-C19.7 the file back end's store replaces the whole entry
	if sv := c.need("R-C19.7", "storage/file", "(*Storage).storeValue"); sv != nil {
		ok, why := truncatingWrite(p, sv, 0)
		if why == "" {
			r.Unk("R-C19.7", core.FuncName(sv)+" write primitive", p.Pos(sv.Pos()), "no recognised file write (os.WriteFile, os.Create, os.OpenFile) found")
		} else {
			r.Check(ok, "R-C19.7", core.FuncName(sv)+" write primitive", p.Pos(sv.Pos()), why, why+": a shorter value stored over a longer one keeps the old tail, so Load does not return the most recently stored message")
		}
	}

	// R-C19.4
	for _, be := range []string{"storage/inmem", "storage/file"} {
		lv := c.need("R-C19.4", be, "(*Storage).loadValue")
		if lv == nil {
			continue
		}
		n := 0
		for _, ret := range core.Returns(lv) {
			if core.IsGlobalLoad(core.ReturnOperand(ret, 0), mod+".ErrNotFound") {
				n++
			}
		}
		r.Check(n >= 1, "R-C19.4", core.FuncName(lv)+" absent arm", p.Pos(lv.Pos()), "returns nodeenrollment.ErrNotFound itself", "no return of the ErrNotFound sentinel: absence is reported as a generic error and every caller misclassifies it")
		if be == "storage/inmem" {
			// the !found edge of Get returns exactly that
			for _, gc := range callsNamed(lv, "(*github.com/armon/go-radix.Tree).Get") {
				found := extractOf(gc, 1)
				for _, b := range lv.Blocks {
					ifi, ok := b.Instrs[len(b.Instrs)-1].(*ssa.If)
					if !ok || ifi.Cond != found {
						continue
					}
					ret, isRet := b.Succs[1].Instrs[len(b.Succs[1].Instrs)-1].(*ssa.Return)
					r.Check(isRet && core.IsGlobalLoad(core.ReturnOperand(ret, 0), mod+".ErrNotFound"), "R-C19.4", core.FuncName(lv)+" not-found edge", p.Pos(gc.Pos()), "the !found edge returns ErrNotFound", "the !found edge does not return the ErrNotFound sentinel")
				}
			}
		}
	}

	// R-C19.3
	nTree := 0
	for _, fn := range p.ModuleFuncs() {
		if fn.Pkg == nil || fn.Pkg.Pkg.Path() != mod+"/storage/inmem" || fn.Signature.Recv() == nil {
			continue
		}
		li := core.LockFlow(p, fn, "RWMutex", core.LNone)
		name := core.FuncName(fn)
		for ret, s := range li.AtReturn {
			if s != core.LNone {
				r.Bad("R-C19.3", name+" lock state at return", p.Pos(ret.Pos()), "returns holding "+s.String())
			}
		}
		for _, pr := range li.Problems {
			r.Bad("R-C19.3", name+" lock misuse", "", pr)
		}
		per := map[string]int{}
		for _, ci := range core.AllCalls(fn) {
			cn := core.CalleeName(ci.Common())
			if !strings.HasPrefix(cn, "(*github.com/armon/go-radix.Tree).") {
				continue
			}
			nTree++
			m := strings.TrimPrefix(cn, "(*github.com/armon/go-radix.Tree).")
			per[m]++
			construct := fmt.Sprintf("%s radix.%s#%d", name, m, per[m])
			s := li.Before[ci]
			switch m {
			case "Insert", "Delete", "DeletePrefix":
				r.Check(s == core.LWrite, "R-C19.3", construct, p.Pos(ci.Pos()), "write under the write lock", "tree mutation while holding "+s.String())
			case "Get", "ToMap", "Walk", "WalkPrefix", "WalkPath", "LongestPrefix", "Minimum", "Maximum", "Len":
				r.Check(s == core.LRead || s == core.LWrite, "R-C19.3", construct, p.Pos(ci.Pos()), "read under "+s.String(), "tree read while holding "+s.String())
			default:
				r.Unk("R-C19.3", construct, p.Pos(ci.Pos()), "unclassified radix-tree method")
			}
		}
	}
	if nTree < 4 {
		r.Unk("R-C19.3", "radix-tree call sites", "", fmt.Sprintf("only %d found", nTree))
	}

	// R-C19.5
	if so := c.need("R-C19.5", "storage/testing", "(*Storage).Store"); so != nil {
		name := core.FuncName(so)
		msg := ssa.Value(so.Params[2])
		var inner *ssa.Call
		for _, ci := range core.AllCalls(so) {
			if core.CalleeName(ci.Common()) == "(*"+mod+"/storage/inmem.Storage).Store" {
				inner, _ = ci.(*ssa.Call)
			}
		}
		var armHead *ssa.BasicBlock
		for _, b := range so.Blocks {
			ifi, ok := b.Instrs[len(b.Instrs)-1].(*ssa.If)
			if !ok {
				continue
			}
			if ex, ok := ifi.Cond.(*ssa.Extract); ok && ex.Index == 1 {
				if ta, ok := ex.Tuple.(*ssa.TypeAssert); ok && core.Strip(ta.X) == msg && namedType(ta.AssertedType, typesPkg, "NodeInformation") {
					armHead = b.Succs[0]
				}
			}
		}
		if inner == nil || armHead == nil {
			r.Unk("R-C19.5", name+" anchors", p.Pos(so.Pos()), "inner Store call or NodeInformation arm not found")
		} else {
			gLoadOK := core.ErrNil("Load(same id)", func(x *ssa.Call) bool {
				if !strings.HasSuffix(core.CalleeName(x.Common()), "Storage).Load") {
					return false
				}
				// the loaded probe carries msg.GetId()
				al, ok := core.Strip(x.Call.Args[2]).(*ssa.Alloc)
				if !ok {
					return false
				}
				for _, fs := range fieldStores(al) {
					if fs.Field == "Id" {
						if ic, _ := core.CallResult(core.Strip(fs.Val)); ic != nil && ic.Common().IsInvoke() && ic.Common().Method.Name() == "GetId" && core.Strip(ic.Common().Value) == msg {
							return true
						}
					}
				}
				return false
			})
			gLoadFail := core.Guard{Name: "Load(same id) failed", Match: func(cond ssa.Value) (int, bool) { s, ok := gLoadOK.Match(cond); return 1 - s, ok }}
			res := core.CutReachFrom(p, so, armHead, gLoadFail, nil, inner.Block())
			r.CutOb(p, "R-C19.5", name+" node record stored only if absent", p.Pos(inner.Pos()), res, gLoadFail)
		}
	}
}

// c19Key checks the origin set of the entry key used by a value helper.
func c19Key(c *Ctx, be string, helper *ssa.Function) {
	p, r := c.P, c.R
	name := core.FuncName(helper)
	var idP, subP ssa.Value
	for _, pr := range helper.Params {
		switch pr.Name() {
		case "id":
			idP = pr
		case "subPath":
			subP = pr
		}
	}
	if idP == nil || subP == nil {
		r.Unk("R-C19.6", name+" parameters", p.Pos(helper.Pos()), "helper has no (id, subPath) parameters")
		return
	}
	// key sinks
	var keys []ssa.Value
	type keyOp struct {
		in      ssa.Instruction
		mutates bool
	}
	var keyOps []keyOp
	for _, ci := range core.AllCalls(helper) {
		cn := core.CalleeName(ci.Common())
		switch {
		case strings.HasPrefix(cn, "(*github.com/armon/go-radix.Tree).") && (strings.HasSuffix(cn, ".Insert") || strings.HasSuffix(cn, ".Get") || strings.HasSuffix(cn, ".Delete")):
			keys = append(keys, ci.Common().Args[1])
			keyOps = append(keyOps, keyOp{ci, !strings.HasSuffix(cn, ".Get")})
		case cn == "os.WriteFile" || cn == "os.ReadFile" || cn == "os.Remove" || cn == "os.OpenFile" || cn == "os.Create" || cn == "os.Open":
			keys = append(keys, ci.Common().Args[0])
			keyOps = append(keyOps, keyOp{ci, cn != "os.ReadFile" && cn != "os.Open"})
		default:
			// a package-local helper that receives the entry path and performs the file operation
			if cal := ci.Common().StaticCallee(); cal != nil && cal.Pkg == helper.Pkg && cal.Signature.Recv() == nil && fileOpOnParam(cal) >= 0 {
				keys = append(keys, ci.Common().Args[fileOpOnParam(cal)])
				readsOnly := true
				for _, hc := range core.AllCalls(cal) {
					switch core.CalleeName(hc.Common()) {
					case "os.WriteFile", "os.Remove", "os.OpenFile", "os.Create", "os.RemoveAll", "os.Rename":
						readsOnly = false
					}
				}
				keyOps = append(keyOps, keyOp{ci, !readsOnly})
			}
		}
	}
	if len(keys) == 0 {
		r.Unk("R-C19.6", name+" entry key", p.Pos(helper.Pos()), "no keyed value operation found")
		return
	}
	for i, k := range keys {
		origins := map[string]bool{}
		seen := map[ssa.Value]bool{}
		usesJoin := false
		paramArg := map[*ssa.Parameter]ssa.Value{}
		var walk func(v ssa.Value)
		walk = func(v ssa.Value) {
			v = core.Strip(v)
			if seen[v] {
				return
			}
			seen[v] = true
			switch x := v.(type) {
			case *ssa.Parameter:
				if a, isHelperParam := paramArg[x]; isHelperParam {
					walk(a)
					return
				}
				origins["param:"+x.Name()] = true
			case *ssa.Const:
				origins["const"] = true
			case *ssa.BinOp:
				walk(x.X)
				walk(x.Y)
			case *ssa.Convert:
				walk(x.X)
			case *ssa.Phi:
				for _, e := range x.Edges {
					walk(e)
				}
			case *ssa.Call:
				cn := core.CalleeName(x.Common())
				if cn == "path/filepath.Join" || cn == "path.Join" {
					usesJoin = true
					for _, e := range core.SliceLiteralElems(x.Call.Args[0]) {
						walk(e)
					}
					return
				}
				// a package-local pure key builder: what it returns, with its parameters standing for the arguments
				if h := core.ModuleCallee(x.Common()); h != nil && h.Pkg == helper.Pkg && h.Signature.Recv() == nil && len(paramArg) < 16 {
					for i, q := range h.Params {
						if i < len(x.Call.Args) {
							paramArg[q] = x.Call.Args[i]
						}
					}
					for _, hr := range core.Returns(h) {
						if len(hr.Results) == 1 {
							walk(hr.Results[0])
						}
					}
					return
				}
				origins["call:"+shortName(cn)] = true
			case *ssa.UnOp:
				pp := core.PathOf(x)
				if len(pp.Fields) > 0 {
					origins["field:"+pp.Last()] = true
					return
				}
				if g, ok := x.X.(*ssa.Global); ok {
					origins["global:"+g.Name()] = true
					return
				}
				origins["load:"+x.Name()] = true
			default:
				origins[fmt.Sprintf("%T", v)] = true
			}
		}
		walk(k)
		var os []string
		for o := range origins {
			os = append(os, o)
		}
		sort.Strings(os)
		ok := origins["param:id"] && origins["param:subPath"]
		for o := range origins {
			switch o {
			case "param:id", "param:subPath", "const", "field:baseDir", "global:Separator":
			default:
				ok = false
			}
		}
		r.Check(ok, "R-C19.6", fmt.Sprintf("%s entry key#%d", name, i), p.Pos(helper.Pos()), "depends on "+strings.Join(os, ","), "the entry key depends on "+strings.Join(os, ",")+"; it must depend on exactly (subPath, id) and back-end constants, or store/load/remove address different entries")
		// a key built with a normalising join is injective in the id only if the id is a
		// single path element: writes and removals must be cut by id == filepath.Base(id)
		if usesJoin && i < len(keyOps) && keyOps[i].mutates {
			gBase := core.Guard{Name: "id == filepath.Base(id)", Match: func(cond ssa.Value) (int, bool) {
				bo, isBo := cond.(*ssa.BinOp)
				if !isBo || (bo.Op != token.EQL && bo.Op != token.NEQ) {
					return 0, false
				}
				for _, pair := range [][2]ssa.Value{{bo.X, bo.Y}, {bo.Y, bo.X}} {
					if bc, isCall := pair[1].(*ssa.Call); isCall && core.CalleeName(bc.Common()) == "path/filepath.Base" && core.Strip(bc.Call.Args[0]) == core.Strip(pair[0]) && core.Strip(pair[0]) == idP {
						if bo.Op == token.EQL {
							return 0, true
						}
						return 1, true
					}
				}
				return 0, false
			}}
			res := core.CutReach(p, helper, gBase, keyOps[i].in.Block())
			r.CutOb(p, "R-C19.6", fmt.Sprintf("%s entry key#%d is a single path element", name, i), p.Pos(keyOps[i].in.Pos()), res, gBase)
		}
	}
}

// fileOpOnParam returns the index of the parameter of fn that is used as the
// path of an os file operation, or -1.
func fileOpOnParam(fn *ssa.Function) int {
	for _, ci := range core.AllCalls(fn) {
		switch core.CalleeName(ci.Common()) {
		case "os.WriteFile", "os.OpenFile", "os.Create", "os.ReadFile", "os.Remove", "os.Open":
			for i, pr := range fn.Params {
				if core.Strip(ci.Common().Args[0]) == ssa.Value(pr) {
					return i
				}
			}
		}
	}
	return -1
}

// truncatingWrite reports whether fn (or a package-local helper it hands the
// path to) writes with a primitive that replaces the file's content.
func truncatingWrite(p *core.Prog, fn *ssa.Function, depth int) (bool, string) {
	oTrunc := int64(-1)
	if osp := p.SSAPkg["os"]; osp != nil {
		if cst, ok := osp.Members["O_TRUNC"].(*ssa.NamedConst); ok {
			oTrunc = cst.Value.Int64()
		}
	}
	for _, ci := range core.AllCalls(fn) {
		switch core.CalleeName(ci.Common()) {
		case "os.WriteFile":
			return true, "os.WriteFile (truncates)"
		case "os.Create":
			return true, "os.Create (truncates)"
		case "os.OpenFile":
			flags, ok := core.ConstInt(ci.Common().Args[1])
			if !ok || oTrunc < 0 {
				return false, "os.OpenFile with non-constant flags"
			}
			if flags&oTrunc != 0 {
				return true, "os.OpenFile with O_TRUNC"
			}
			return false, fmt.Sprintf("os.OpenFile(flags=%#x) without O_TRUNC", flags)
		}
	}
	if depth < 1 {
		for _, ci := range core.AllCalls(fn) {
			if cal := ci.Common().StaticCallee(); cal != nil && cal.Pkg == fn.Pkg && cal.Signature.Recv() == nil && cal.Blocks != nil {
				if ok, why := truncatingWrite(p, cal, depth+1); why != "" {
					return ok, why + " in " + cal.Name()
				}
			}
		}
	}
	return false, ""
}

// destWrites classifies every call of fn that receives dest: proto.Unmarshal (counted) and proto.Reset are
// the accepted writers; a package-local unexported helper that receives dest is followed (depth 3); any
// other receiver is returned as the offending callee.
func destWrites(fn *ssa.Function, dest ssa.Value, depth int) (nW int, bad string) {
	for _, ci := range core.AllCalls(fn) {
		at := -1
		for i, a := range ci.Common().Args {
			if core.Strip(a) == dest {
				at = i
			}
		}
		if at < 0 {
			continue
		}
		cn := core.CalleeName(ci.Common())
		switch cn {
		case "google.golang.org/protobuf/proto.Unmarshal":
			nW++ // Unmarshal resets the destination first
		case "google.golang.org/protobuf/proto.Reset":
		default:
			cal := ci.Common().StaticCallee()
			if cal != nil && cal.Pkg == fn.Pkg && len(cal.Blocks) > 0 && depth < 3 && !ast.IsExported(cal.Name()) && at < len(cal.Params) {
				n, b := destWrites(cal, cal.Params[at], depth+1)
				nW += n
				if b != "" {
					bad = b
				}
				continue
			}
			bad = shortName(cn)
		}
	}
	return
}
