package rules

import (
	"fmt"
	"go/constant"

	"nechk/core"

	"golang.org/x/tools/go/ssa"
)

func init() { All["C03"] = c03 }

func c03(c *Ctx) {
	p, r := c.P, c.R
	r.Rule("R-C03.1", "every success return of the request validator is cut by: non-empty bundle and signature; successful proto.Unmarshal(req.Bundle) into the returned info; key-type equalities (certificate key ED25519, encryption key X25519); non-empty nonce, certificate key and encryption key; ed25519.Verify(pk, req.Bundle, req.BundleSignature) with pk parsed from the unmarshalled info's own CertificatePublicKeyPkix")
	r.Rule("R-C03.2", "the validator rejects exactly when info.NotBefore+opts.WithNotBeforeClockSkew > now or info.NotAfter+opts.WithNotAfterClockSkew < now (normalised time relations, one time.Now() value)")
	r.Rule("R-C03.3", "in FetchNodeCredentials and AuthorizeNode every call that may reach storage, a wrapper, message decryption or certificate minting is cut by the validator's success edge; the validator itself reaches none of these")
	r.Rule("R-C03.4", "a created request signs exactly the marshalled bundle it carries; NotBefore is now and NotAfter is now + the value of DefaultFetchCredentialsLifetime, both from one time.Now()")
	r.NotDecided = append(r.NotDecided, "Ed25519 itself", "bit-level mutation outcomes", "wall-clock behaviour")

	a := resolveFetch(c, "R-C03.1")
	if a == nil {
		return
	}
	V := a.validate.Common().StaticCallee()
	vname := core.FuncName(V)
	req := paramOfType(V, typesPkg, "FetchNodeCredentialsRequest")
	rets := core.SuccessReturns(V)
	if req == nil || len(rets) == 0 {
		r.Unk("R-C03.1", vname+" anchors", p.Pos(V.Pos()), "validator has no request parameter or no success return")
		return
	}
	cg := core.BuildCallGraph(p)
	for i, ret := range rets {
		info := core.Strip(ret.Results[0])
		if _, ok := info.(*ssa.Alloc); !ok {
			r.Unk("R-C03.1", fmt.Sprintf("%s success-return#%d info", vname, i), p.Pos(ret.Pos()), "returned info is not a local allocation filled by proto.Unmarshal")
			continue
		}
		var optsV ssa.Value
		for _, oc := range callsNamed(V, mod+".GetOpts") {
			optsV = extractOf(oc, 0)
		}
		gs := []core.Guard{
			core.NonEmpty("req.Bundle", core.FieldOf(req, "Bundle")),
			core.NonEmpty("req.BundleSignature", core.FieldOf(req, "BundleSignature")),
			core.ErrNil("proto.Unmarshal(req.Bundle, info)", func(x *ssa.Call) bool {
				if core.CalleeName(x.Common()) != "google.golang.org/protobuf/proto.Unmarshal" {
					return false
				}
				bp := core.PathOf(x.Call.Args[0])
				return bp.Root == req && bp.HasFields("Bundle") && core.Strip(x.Call.Args[1]) == info
			}),
			core.NonEmpty("info.CertificatePublicKeyPkix", core.FieldOf(info, "CertificatePublicKeyPkix")),
			core.NonEmpty("info.Nonce", core.FieldOf(info, "Nonce")),
			core.NonEmpty("info.EncryptionPublicKeyBytes", core.FieldOf(info, "EncryptionPublicKeyBytes")),
			core.EnumEq("info.CertificatePublicKeyType==ED25519", core.FieldOf(info, "CertificatePublicKeyType"), 1),
			core.EnumEq("info.EncryptionPublicKeyType==X25519", core.FieldOf(info, "EncryptionPublicKeyType"), 2),
			core.BoolCall("ed25519.Verify(pk(info.CertificatePublicKeyPkix), req.Bundle, req.BundleSignature)", func(x *ssa.Call) bool {
				if core.CalleeName(x.Common()) != "crypto/ed25519.Verify" {
					return false
				}
				kp, ok := keyFromPkix(x.Call.Args[0])
				if !ok || kp.Root != info || !kp.HasFields("CertificatePublicKeyPkix") {
					return false
				}
				m, s := core.PathOf(x.Call.Args[1]), core.PathOf(x.Call.Args[2])
				return m.Root == req && m.HasFields("Bundle") && s.Root == req && s.HasFields("BundleSignature")
			}),
		}
		for _, g := range gs {
			res := core.CutReach(p, V, g, ret.Block())
			r.CutOb(p, "R-C03.1", fmt.Sprintf("%s success-return#%d guard=%s", vname, i, g.Name), p.Pos(ret.Pos()), res, g)
		}
		// R-C03.2
		isNow := func(t core.TimeForm) bool { return t.Base == "now" && len(t.Terms) == 0 }
		tsForm := func(field, skew string) func(core.TimeForm) bool {
			return func(t core.TimeForm) bool {
				return t.Base == "ts:"+field && t.Root == info && len(t.Terms) == 1 && t.Terms[0] == skew && (optsV != nil)
			}
		}
		w := []core.Guard{
			core.TimeNotGreater("info.NotBefore+WithNotBeforeClockSkew > now", tsForm("NotBefore", "WithNotBeforeClockSkew"), isNow),
			core.TimeNotGreater("now > info.NotAfter+WithNotAfterClockSkew", isNow, tsForm("NotAfter", "WithNotAfterClockSkew")),
		}
		for _, g := range w {
			res := core.CutReach(p, V, g, ret.Block())
			r.CutOb(p, "R-C03.2", fmt.Sprintf("%s success-return#%d window guard=%s", vname, i, g.Name), p.Pos(ret.Pos()), res, g)
		}
	}
	// one time.Now() in the validator, and every time comparison in it is one of the two window tests
	var nows []*ssa.Call
	for _, f := range core.DeepFuncs(V, core.MaxSummaryDepth) {
		nows = append(nows, callsNamed(f, "time.Now")...)
	}
	r.Check(len(nows) == 1, "R-C03.2", vname+" single clock reading", p.Pos(V.Pos()), "one time.Now() value", fmt.Sprintf("%d time.Now() calls: the two window tests may use different instants", len(nows)))
	nrel := countTimeRels(V)
	r.Check(nrel == 2, "R-C03.2", vname+" number of time comparisons", p.Pos(V.Pos()), "exactly the two window comparisons", fmt.Sprintf("%d time comparisons in the validator; only the two window tests are expected (an extra or missing rejection)", nrel))

	// validator has no effects
	eff := cg.Effects(V)
	var bad []string
	for e := range eff {
		bad = append(bad, e)
	}
	r.Check(len(bad) == 0, "R-C03.3", vname+" effect-free", p.Pos(V.Pos()), "validator reaches no storage, wrapper or minting call", "validator may reach: "+core.EffectList(eff))

	// R-C03.3 in both entry points
	for _, name := range []string{"FetchNodeCredentials", "AuthorizeNode"} {
		fn := c.need("R-C03.3", "registration", name)
		if fn == nil {
			continue
		}
		rq := paramOfType(fn, typesPkg, "FetchNodeCredentialsRequest")
		vc := validatorCall(fn, rq)
		if vc == nil {
			r.Unk("R-C03.3", "registration."+name+" validation call", p.Pos(fn.Pos()), "no validation call found")
			continue
		}
		g := core.ErrNil("validate", func(x *ssa.Call) bool { return x == vc })
		n := 0
		for _, ci := range core.AllCalls(fn) {
			call, ok := ci.(*ssa.Call)
			if !ok || call == vc {
				continue
			}
			e := cg.CallEffects(ci)
			nm := core.CalleeName(ci.Common())
			if len(e) == 0 && nm != mod+".DecryptMessage" && nm != mod+".EncryptMessage" {
				continue
			}
			n++
			res := core.CutReach(p, fn, g, call.Block())
			r.CutOb(p, "R-C03.3", fmt.Sprintf("registration.%s effectful-call#%d %s", name, n, shortName(nm)), p.Pos(call.Pos()), res, g)
		}
		if n == 0 {
			r.Unk("R-C03.3", "registration."+name+" effectful calls", p.Pos(fn.Pos()), "no effectful call found")
		}
	}

	c03Create(c)
}

func c03Create(c *Ctx) {
	p, r := c.P, c.R
	fn := c.need("R-C03.4", "types", "(*NodeCredentials).CreateFetchNodeCredentialsRequest")
	if fn == nil {
		return
	}
	name := core.FuncName(fn)
	// the returned request
	var reqAlloc ssa.Value
	for _, ret := range core.SuccessReturns(fn) {
		reqAlloc = core.Strip(ret.Results[0])
	}
	if _, ok := reqAlloc.(*ssa.Alloc); !ok {
		r.Unk("R-C03.4", name+" returned request", p.Pos(fn.Pos()), "returned request is not a local allocation")
		return
	}
	// signature over req.Bundle
	signed := false
	for _, ci := range core.AllCalls(fn) {
		cc := ci.Common()
		if cc.IsInvoke() && cc.Method.Name() == "Sign" && len(cc.Args) == 3 {
			mp := core.PathOf(cc.Args[1])
			ok := mp.Root == reqAlloc && mp.HasFields("Bundle")
			if !ok {
				// the signed bytes are a local that is also what the request carries
				bs := 0
				for _, st := range storesToField(fn, "types.FetchNodeCredentialsRequest", "Bundle") {
					if core.PathOf(st.Addr).Root == reqAlloc {
						bs++
						ok = core.Strip(st.Val) == core.Strip(cc.Args[1])
					}
				}
				ok = ok && bs == 1
			}
			signed = true
			// result stored to req.BundleSignature
			sigStored := false
			if call, isCall := ci.(*ssa.Call); isCall {
				sv := extractOf(call, 0)
				for _, st := range storesToField(fn, "types.FetchNodeCredentialsRequest", "BundleSignature") {
					if core.Strip(st.Val) == sv && core.PathOf(st.Addr).Root == reqAlloc {
						sigStored = true
					}
				}
			}
			r.Check(ok && sigStored, "R-C03.4", name+" signs the carried bundle", p.Pos(ci.Pos()),
				"Sign(_, req.Bundle) and the signature is stored in the same request", "the signed message is not the bundle carried in the returned request, or the signature is stored elsewhere")
		}
	}
	if !signed {
		r.Unk("R-C03.4", name+" signs the carried bundle", p.Pos(fn.Pos()), "no Signer.Sign call found")
	}
	// bundle = Marshal(info); info.NotBefore/NotAfter forms
	var infoAlloc ssa.Value
	for _, st := range storesToField(fn, "types.FetchNodeCredentialsRequest", "Bundle") {
		if mc, idx := core.CallResult(st.Val); mc != nil && idx == 0 && core.CalleeName(mc.Common()) == "google.golang.org/protobuf/proto.Marshal" {
			infoAlloc = core.Strip(mc.Call.Args[0])
		}
	}
	if infoAlloc == nil {
		r.Unk("R-C03.4", name+" bundle is the marshalled info", p.Pos(fn.Pos()), "req.Bundle is not assigned from proto.Marshal(info)")
		return
	}
	want := int64(-1)
	if obj := p.Mod[mod].Types.Scope().Lookup("DefaultFetchCredentialsLifetime"); obj != nil {
		if cst, ok := obj.(interface{ Val() constant.Value }); ok {
			if v, exact := constant.Int64Val(cst.Val()); exact {
				want = v
			}
		}
	}
	if want < 0 {
		r.Unk("R-C03.4", "nodeenrollment.DefaultFetchCredentialsLifetime", "", "constant not found")
		return
	}
	forms := map[string]core.TimeForm{}
	for _, f := range []string{"NotBefore", "NotAfter"} {
		for _, st := range storesToField(fn, "types.FetchNodeCredentialsInfo", f) {
			if core.PathOf(st.Addr).Root != infoAlloc {
				continue
			}
			if nc, idx := core.CallResult(st.Val); nc != nil && idx == 0 && core.CalleeName(nc.Common()) == "google.golang.org/protobuf/types/known/timestamppb.New" {
				forms[f] = core.TimeFormOf(nc.Call.Args[0])
			}
		}
	}
	nb, okb := forms["NotBefore"]
	na, oka := forms["NotAfter"]
	if !okb || !oka {
		r.Unk("R-C03.4", name+" validity window", p.Pos(fn.Pos()), "NotBefore/NotAfter of the marshalled info are not set from timestamppb.New(...)")
		return
	}
	r.Check(nb.Base == "now" && len(nb.Terms) == 0, "R-C03.4", name+" NotBefore", p.Pos(fn.Pos()), "NotBefore = now", "NotBefore = "+nb.String()+", expected now")
	wantTerm := fmt.Sprintf("const:%d", want)
	r.Check(na.Base == "now" && len(na.Terms) == 1 && na.Terms[0] == wantTerm, "R-C03.4", name+" NotAfter", p.Pos(fn.Pos()),
		"NotAfter = now + DefaultFetchCredentialsLifetime ("+wantTerm+"ns)", "NotAfter = "+na.String()+", expected now + "+wantTerm)
	r.Check(nb.Now != nil && nb.Now == na.Now, "R-C03.4", name+" single clock reading", p.Pos(fn.Pos()), "both ends derive from one time.Now()", "NotBefore and NotAfter derive from different time.Now() calls")
}
