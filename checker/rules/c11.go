package rules

import (
	"fmt"
	"strings"

	"nechk/core"

	"golang.org/x/tools/go/ssa"
)

func init() { All["C11"] = c11 }

// aeadParams extracts how fn configures and uses the AEAD wrapper: the values
// given to wrapping.WithKeyId / aead.WithKey and the AAD operand of the
// Encrypt/Decrypt call (with the condition under which it is supplied).
type aeadParams struct {
	keyId, key ssa.Value
	op         *ssa.Call // Encrypt or Decrypt on the wrapper
	aadVal     ssa.Value // x of WithAad([]byte(x)); nil if none
	aadAlways  bool      // AAD passed unconditionally
	aadGuarded bool      // AAD passed exactly when keyId != ""
}

func optionArgs(call *ssa.Call, ctor string) []ssa.Value {
	var out []ssa.Value
	for _, a := range call.Common().Args {
		elems, ok := sliceLiteralElems(a)
		if !ok {
			continue
		}
		for _, e := range elems {
			for _, src := range flattenPhi(e) {
				if oc, _ := core.CallResult(src); oc != nil && core.CalleeName(oc.Common()) == ctor {
					out = append(out, oc.Call.Args[0])
				}
			}
		}
	}
	return out
}

func extractAead(fn *ssa.Function, method string) (*aeadParams, string) {
	ap := &aeadParams{}
	const pk = "github.com/hashicorp/go-kms-wrapping/v2"
	sets := callsNamed(fn, "(*"+pk+"/aead.Wrapper).SetConfig")
	ops := callsNamed(fn, "(*"+pk+"/aead.Wrapper)."+method)
	if len(sets) != 1 || len(ops) != 1 {
		return nil, fmt.Sprintf("SetConfig calls=%d %s calls=%d", len(sets), method, len(ops))
	}
	if core.Strip(sets[0].Call.Args[0]) != core.Strip(ops[0].Call.Args[0]) {
		return nil, "the configured wrapper is not the one used"
	}
	kid := optionArgs(sets[0], pk+".WithKeyId")
	key := optionArgs(sets[0], pk+"/aead.WithKey")
	if len(kid) != 1 || len(key) != 1 {
		return nil, "SetConfig is not given exactly one WithKeyId and one WithKey"
	}
	ap.keyId, ap.key, ap.op = core.Strip(kid[0]), core.Strip(key[0]), ops[0]
	// AAD operand: option slot holding phi(nil, WithAad(x))
	for _, a := range ops[0].Common().Args {
		elems, ok := sliceLiteralElems(a)
		if !ok {
			continue
		}
		for _, e := range elems {
			hasNil := false
			var visit func(v ssa.Value, in *ssa.Function, depth int)
			visit = func(v ssa.Value, in *ssa.Function, depth int) {
				for _, src := range flattenPhi(v) {
					if core.IsNilConst(src) {
						hasNil = true
						continue
					}
					oc, _ := core.CallResult(src)
					if oc == nil {
						continue
					}
					if core.CalleeName(oc.Common()) == pk+".WithAad" {
						ap.aadVal = core.Strip(oc.Call.Args[0])
						// guarded by keyId != ""
						g := strEmptyGuard("keyId", func(pp core.Path) bool { return pp.Root == ap.keyId && len(pp.Fields) == 0 })
						inv := core.Guard{Name: "keyId != \"\"", Match: func(cond ssa.Value) (int, bool) { s, ok := g.Match(cond); return 1 - s, ok }}
						res := core.CutReach(nil2(in), in, inv, oc.Block())
						ap.aadGuarded = !res.Reachable && len(res.Instances) > 0
						continue
					}
					// a helper that builds the option: its parameters stand for the arguments
					if h := core.ModuleCallee(oc.Common()); h != nil && depth < core.MaxSummaryDepth {
						core.WithSubst(core.FrameSubst(oc.Common(), h), func() {
							for _, ret := range core.Returns(h) {
								if len(ret.Results) == 1 {
									visit(core.ReturnOperand(ret, 0), h, depth+1)
								}
							}
						})
					}
				}
			}
			visit(e, fn, 0)
			if !hasNil && ap.aadVal != nil {
				ap.aadAlways = true
			}
		}
	}
	return ap, ""
}

// nil2 lets CutReach run without a Prog for position rendering.
func nil2(fn *ssa.Function) *core.Prog { return &core.Prog{Fset: fn.Prog.Fset} }

func c11(c *Ctx) {
	p, r := c.P, c.R
	r.Rule("R-C11.1", "EncryptMessage and decryptWithKey configure the AEAD with (key ID, shared key) taken as a pair from one key-producer call, and pass AAD = the key ID exactly when it is non-empty - the same table on both sides")
	r.Rule("R-C11.2", "in DecryptMessage every attempt decrypts the given ciphertext; a successful attempt is final (only the success return is reachable from its success edge, no further attempt); both the current and the recorded previous key are tried; nil is returned only after one attempt succeeded; the result message is written only by proto.Unmarshal of the decrypted plaintext after a successful Decrypt")
	r.Rule("R-C11.3", "the two X25519EncryptionKey implementations call types.X25519EncryptionKey with (own private, own type, peer public, peer type) and derive the key ID from CertificatePublicKeyPkix; the two SetPreviousEncryptionKey functions record (old key ID, old own private, old peer public) in the same roles and the Previous… methods read them back in that order; types.X25519EncryptionKey uses its parameters in those roles")
	r.Rule("R-C11.5", "no size limit separates what EncryptMessage produces from what DecryptMessage accepts: an upper bound on the length of the incoming ciphertext in the decrypt path must be matched by an upper bound, with a constant not larger, on the bytes EncryptMessage returns (a bound on the plaintext is a different quantity)")
	r.Rule("R-C11.4", "no crash: every panic site reachable from DecryptMessage is discharged; the unchecked Ciphertext[:12] of aead.Wrapper.Decrypt is a length precondition that decryptWithKey checks before the call")
	r.NotDecided = append(r.NotDecided, "round-trip equality of messages", "AEAD authenticity", "X25519 commutativity")

	da := c11Decrypt(c)
	if da == nil {
		return
	}
	c11SizeBounds(c)
	decK := c.need("R-C11.4", "", "decryptWithKey")
	decM := c.P.Func("", "DecryptMessage")
	c11Siblings(c)

	// R-C11.4
	cg := core.BuildCallGraph(p)
	reach := cg.Reachable(decM)
	for fn := range reach {
		if fn.Blocks == nil || isGenerated(p, fn) {
			continue
		}
		r.Fn(core.FuncName(fn))
		per := map[string]int{}
		for _, s := range core.PanicSites(p, fn) {
			construct := fmt.Sprintf("%s %s %s", core.FuncName(fn), s.Kind, s.Desc)
			per[construct]++
			if per[construct] > 1 {
				construct += fmt.Sprintf(" #%d", per[construct])
			}
			if s.Discharged {
				r.OK("R-C11.4", construct, p.Pos(s.Instr.Pos()), s.Why)
				continue
			}
			if ta, ok := s.Instr.(*ssa.TypeAssert); ok {
				if okd, why := dischargeTypeAssert(p, ta); okd {
					r.OK("R-C11.4", construct, p.Pos(s.Instr.Pos()), why)
					continue
				}
			}
			r.Bad("R-C11.4", construct, p.Pos(s.Instr.Pos()), "can panic while decrypting attacker-supplied bytes: "+s.Why)
		}
	}
	needs, impl := wrapperDecryptNeeds(p, da.op)
	if len(needs) == 0 {
		r.Unk("R-C11.4", "aead.Wrapper.Decrypt precondition summary", p.Pos(da.op.Pos()), "no constant-bound slice found in the dependency (summary broken or dependency changed)")
	}
	blob := core.Strip(da.op.Call.Args[2])
	roots := blobRoots(decK, blob)
	for f, n := range needs {
		g := core.LenAtLeast("blob."+f, func(pp core.Path) bool { return roots[pp.Root] && pp.HasFields(f) }, n)
		res := core.CutReach(p, decK, g, da.op.Block())
		r.CutOb(p, "R-C11.4", fmt.Sprintf("nodeenrollment.decryptWithKey callee-precondition %s len(%s)>=%d", impl, f, n), p.Pos(da.op.Pos()), res, g)
	}
}

func c11Siblings(c *Ctx) {
	p, r := c.P, c.R
	type role struct{ priv, privT, pub, pubT string }
	table := map[string]role{
		"(*NodeCredentials).X25519EncryptionKey": {"EncryptionPrivateKeyBytes", "EncryptionPrivateKeyType", "ServerEncryptionPublicKeyBytes", "ServerEncryptionPublicKeyType"},
		"(*NodeInformation).X25519EncryptionKey": {"ServerEncryptionPrivateKeyBytes", "ServerEncryptionPrivateKeyType", "EncryptionPublicKeyBytes", "EncryptionPublicKeyType"},
	}
	shared := c.need("R-C11.3", "types", "X25519EncryptionKey")
	if shared == nil {
		return
	}
	for name, rl := range table {
		fn := c.need("R-C11.3", "types", name)
		if fn == nil {
			continue
		}
		recv := ssa.Value(fn.Params[0])
		cs := callsTo(fn, shared)
		if len(cs) != 1 {
			r.Bad("R-C11.3", "types."+name+" derivation call", p.Pos(fn.Pos()), "does not call types.X25519EncryptionKey exactly once")
			continue
		}
		want := []string{rl.priv, rl.privT, rl.pub, rl.pubT}
		okc := true
		var got []string
		for i, w := range want {
			ap := core.PathOf(cs[0].Call.Args[i])
			got = append(got, strings.Join(ap.Fields, "."))
			if ap.Root != recv || !ap.HasFields(w) {
				okc = false
			}
		}
		r.Check(okc, "R-C11.3", "types."+name+" argument roles", p.Pos(cs[0].Pos()), "(own private, own type, peer public, peer type) = "+strings.Join(want, ", "), "arguments "+strings.Join(got, ", ")+" do not match the roles "+strings.Join(want, ", ")+" (the two sides would derive different secrets)")
		// key id
		okId := false
		for _, ret := range core.SuccessReturns(fn) {
			kc, ki := core.CallResult(core.Strip(ret.Results[0]))
			if kc != nil && ki == 0 && core.CalleeName(kc.Common()) == mod+".KeyIdFromPkix" {
				ap := core.PathOf(kc.Call.Args[0])
				okId = ap.Root == recv && ap.HasFields("CertificatePublicKeyPkix")
			}
			r.Check(core.Strip(ret.Results[1]) == extractOf(cs[0], 0), "R-C11.3", "types."+name+" returned secret", p.Pos(ret.Pos()), "returns the derived secret", "returns something other than the derived secret")
		}
		r.Check(okId, "R-C11.3", "types."+name+" key ID", p.Pos(fn.Pos()), "KeyIdFromPkix(CertificatePublicKeyPkix)", "key ID is not derived from the certificate public key (sender and receiver would disagree on the AAD)")

		// previous-key siblings
		tname := strings.TrimSuffix(strings.TrimPrefix(name, "(*"), ").X25519EncryptionKey")
		setp := c.need("R-C11.3", "types", "(*"+tname+").SetPreviousEncryptionKey")
		prevm := c.need("R-C11.3", "types", "(*"+tname+").PreviousX25519EncryptionKey")
		if setp != nil {
			old := ssa.Value(setp.Params[1])
			var lit *ssa.Alloc
			for _, b := range setp.Blocks {
				for _, in := range b.Instrs {
					if al, ok := in.(*ssa.Alloc); ok && namedType(al.Type(), typesPkg, "EncryptionKey") {
						lit = al
					}
				}
			}
			okS := lit != nil
			if okS {
				ls := storesOf(lit)
				chk := func(f, src string) {
					if len(ls[f]) != 1 {
						okS = false
						return
					}
					vp := core.PathOf(ls[f][0].Val)
					if vp.Root != old || !vp.HasFields(src) {
						okS = false
					}
				}
				chk("PrivateKeyPkcs8", rl.priv)
				chk("PrivateKeyType", rl.privT)
				chk("PublicKeyPkix", rl.pub)
				chk("PublicKeyType", rl.pubT)
				if len(ls["KeyId"]) == 1 {
					kc, ki := core.CallResult(core.Strip(ls["KeyId"][0].Val))
					if kc == nil || ki != 0 || core.CalleeName(kc.Common()) != mod+".KeyIdFromPkix" {
						okS = false
					} else if ap := core.PathOf(kc.Call.Args[0]); ap.Root != old || !ap.HasFields("CertificatePublicKeyPkix") {
						okS = false
					}
				} else {
					okS = false
				}
			}
			r.Check(okS, "R-C11.3", "types.(*"+tname+").SetPreviousEncryptionKey roles", p.Pos(setp.Pos()), "records (old key ID, old own private, old peer public) of the prior record", "the retained previous key does not record the prior record's own private / peer public key and key ID in their roles")
			// the prior pair is always recorded: no success return without the store
			stBlocks := map[*ssa.BasicBlock]bool{}
			for _, st := range storesToField(setp, "types."+tname, "PreviousEncryptionKey") {
				stBlocks[st.Block()] = true
			}
			if len(stBlocks) > 0 {
				gNone := core.Guard{Name: "(nothing skips recording)", Match: func(ssa.Value) (int, bool) { return 0, false }}
				for i, ret := range core.SuccessReturns(setp) {
					if stBlocks[ret.Block()] {
						// the store sits in the returning block itself (it precedes the return)
						r.OK("R-C11.3", fmt.Sprintf("types.(*%s).SetPreviousEncryptionKey success-return#%d records", tname, i), p.Pos(ret.Pos()), "the previous key is stored in the returning block")
						continue
					}
					res := core.CutReachAvoid(p, setp, gNone, stBlocks, ret.Block())
					r.Check(!res.Reachable, "R-C11.3", fmt.Sprintf("types.(*%s).SetPreviousEncryptionKey success-return#%d records", tname, i), p.Pos(ret.Pos()),
						"every success return is preceded by the store of the previous key", "a success return is reachable without recording the prior key pair (e.g. when an entry already exists): messages under that pair can no longer be decrypted")
				}
			}
		}
		if prevm != nil {
			// (the derivation may sit in a helper shared by the two record types: read in its frame)
			var cs []*ssa.Call
			var csSites []core.DeepSite
			for _, site := range core.SplitFind(prevm, nil, func(in ssa.Instruction) bool {
				ci, ok := in.(*ssa.Call)
				return ok && ci.Common().StaticCallee() == shared
			}) {
				cs = append(cs, site.Instr.(*ssa.Call))
				csSites = append(csSites, site)
			}
			okP := len(cs) == 1
			if okP {
				csSites[0].In(func() {
					for i, w := range []string{"PrivateKeyPkcs8", "PrivateKeyType", "PublicKeyPkix", "PublicKeyType"} {
						ap := core.PathOf(cs[0].Call.Args[i])
						if ap.Last() != w || len(ap.Fields) != 2 || ap.Fields[0] != "PreviousEncryptionKey" {
							okP = false
						}
					}
				})
			}
			okKid := false
			for _, rsite := range tailReturnSites(prevm) {
				ret := rsite.Instr.(*ssa.Return)
				rsite.In(func() {
					ap := core.PathOf(ret.Results[0])
					okKid = ap.HasFields("PreviousEncryptionKey", "KeyId")
				})
			}
			r.Check(okP && okKid, "R-C11.3", "types.(*"+tname+").PreviousX25519EncryptionKey roles", p.Pos(prevm.Pos()), "reads back (private, type, public, type) and the recorded key ID", "the previous key is not read back in the roles it was recorded in")
			// a recorded previous key is always offered: a return that does not carry
			// the derived key is reachable only through "receiver is nil", "no previous
			// key recorded" or "derivation failed"
			if okP {
				derive := cs[0]
				recvP := ssa.Value(prevm.Params[0])
				gAbsent := core.AnyOf("receiver nil | no previous key recorded | derivation failed",
					core.BoolCall("IsNil(receiver)", func(x *ssa.Call) bool {
						return core.CalleeName(x.Common()) == mod+".IsNil" && len(x.Call.Args) == 1 && core.PathOf(x.Call.Args[0]).Root == recvP
					}),
					core.NilTest("receiver", func(pp core.Path) bool { return pp.Root == recvP && len(pp.Fields) == 0 }, true),
					core.NilTest("PreviousEncryptionKey", func(pp core.Path) bool {
						return pp.Root == recvP && len(pp.Fields) == 1 && pp.Fields[0] == "PreviousEncryptionKey"
					}, true),
					flipGuard(core.ErrNil("derive previous key", func(x *ssa.Call) bool { return x == derive })))
				nNoKey := 0
				for i, rsite := range returnSites(prevm) {
					ret := rsite.Instr.(*ssa.Return)
					if kc, ki := core.CallResult(core.Strip(ret.Results[1])); kc == derive && ki == 0 {
						continue
					}
					nNoKey++
					res := core.CutReach(p, prevm, gAbsent, ret.Block())
					r.CutOb(p, "R-C11.3", fmt.Sprintf("types.(*%s).PreviousX25519EncryptionKey return#%d without a key", tname, i), p.Pos(ret.Pos()), res, gAbsent)
				}
				if nNoKey == 0 {
					r.Unk("R-C11.3", "types.(*"+tname+").PreviousX25519EncryptionKey returns without a key", p.Pos(prevm.Pos()), "none found (the nil-receiver / no-previous-key returns are expected)")
				}
			}
		}
	}
	// the shared derivation uses its parameters in their roles
	privP, pubP := ssa.Value(shared.Params[0]), ssa.Value(shared.Params[2])
	var np, npub, ecdh *ssa.Call
	for _, ci := range core.AllCalls(shared) {
		cc, ok := ci.(*ssa.Call)
		if !ok || !ci.Common().IsInvoke() && ci.Common().StaticCallee() == nil {
			continue
		}
		nm := ""
		if ci.Common().IsInvoke() {
			nm = ci.Common().Method.Name()
		} else {
			nm = ci.Common().StaticCallee().Name()
		}
		switch nm {
		case "NewPrivateKey":
			np = cc
		case "NewPublicKey":
			npub = cc
		case "ECDH":
			ecdh = cc
		}
	}
	okD := np != nil && npub != nil && ecdh != nil
	if okD {
		okD = core.Strip(np.Common().Args[0]) == privP && core.Strip(npub.Common().Args[0]) == pubP
		recvV := ecdh.Common().Value
		argV := ssa.Value(nil)
		if ecdh.Common().IsInvoke() {
			argV = ecdh.Common().Args[0]
		} else {
			recvV, argV = ecdh.Call.Args[0], ecdh.Call.Args[1]
		}
		okD = okD && core.Strip(recvV) == extractOf(np, 0) && core.Strip(argV) == extractOf(npub, 0)
	}
	r.Check(okD, "R-C11.3", "types.X25519EncryptionKey parameter roles", p.Pos(shared.Pos()), "ECDH(NewPrivateKey(priv), NewPublicKey(pub))", "the shared derivation does not use its private/public parameters in their roles")
	for i, want := range map[int]int64{1: 2, 3: 2} {
		g := core.EnumEq(fmt.Sprintf("param#%d == KEYTYPE_X25519", i), func(pp core.Path) bool { return pp.Root == ssa.Value(shared.Params[i]) && len(pp.Fields) == 0 }, want)
		if ecdh != nil {
			res := core.CutReach(p, shared, g, ecdh.Block())
			r.CutOb(p, "R-C11.3", fmt.Sprintf("types.X25519EncryptionKey key type check param#%d", i), p.Pos(ecdh.Pos()), res, g)
		}
	}
}

// c11Decrypt evaluates R-C11.1 and R-C11.2 (parameter agreement and attempt
// discipline of message decryption); shared with C10. Returns the decrypt
// side's AEAD parameters.
func c11Decrypt(c *Ctx) *aeadParams {
	p, r := c.P, c.R
	encF := c.need("R-C11.1", "", "EncryptMessage")
	decK := c.need("R-C11.1", "", "decryptWithKey")
	decM := c.need("R-C11.2", "", "DecryptMessage")
	if encF == nil || decK == nil || decM == nil {
		return nil
	}
	ea, why := extractAead(encF, "Encrypt")
	da, why2 := extractAead(decK, "Decrypt")
	if ea == nil || da == nil {
		r.Unk("R-C11.1", "AEAD parameter tables", p.Pos(encF.Pos()), "cannot extract: "+why+" / "+why2)
		return nil
	}
	// encrypt side: pair from one X25519EncryptionKey invoke on the key source
	pc, i0 := core.CallResult(ea.keyId)
	pc2, i1 := core.CallResult(ea.key)
	okPair := pc != nil && pc == pc2 && i0 == 0 && i1 == 1 && pc.Common().IsInvoke() && pc.Common().Method.Name() == "X25519EncryptionKey"
	r.Check(okPair, "R-C11.1", "nodeenrollment.EncryptMessage key pair", p.Pos(encF.Pos()), "(key ID, shared key) = keySource.X25519EncryptionKey()", "key ID and shared key do not come from one X25519EncryptionKey() call on the key source")
	aadRow := func(a *aeadParams) string {
		switch {
		case a.aadVal == nil:
			return "none"
		case a.aadVal != a.keyId:
			return "other:" + core.ValueName(a.aadVal)
		case a.aadAlways:
			return "keyId always"
		case a.aadGuarded:
			return "keyId iff non-empty"
		}
		return "keyId under an unrecognised condition"
	}
	er, dr := aadRow(ea), aadRow(da)
	r.Check(er == dr && strings.HasPrefix(er, "keyId"), "R-C11.1", "AAD row encrypt vs decrypt", p.Pos(encF.Pos()), "both sides: AAD = "+er, "encrypt side AAD: "+er+"; decrypt side AAD: "+dr+" (messages are not bound to the key ID the same way on both sides)")
	// decrypt side: parameters
	kidP, okp := da.keyId.(*ssa.Parameter)
	keyP, okp2 := da.key.(*ssa.Parameter)
	if !okp || !okp2 {
		r.Bad("R-C11.1", "nodeenrollment.decryptWithKey parameters", p.Pos(decK.Pos()), "the wrapper is not configured from the function's key-ID and key parameters")
		return nil
	}
	idxOf := func(pr *ssa.Parameter) int {
		for i, q := range decK.Params {
			if q == pr {
				return i
			}
		}
		return -1
	}
	ki, kk := idxOf(kidP), idxOf(keyP)
	calls := callsTo(decM, decK)
	if len(calls) == 0 {
		r.Unk("R-C11.2", "nodeenrollment.DecryptMessage attempts", p.Pos(decM.Pos()), "no decryptWithKey call")
		return nil
	}
	keySrc := paramRoot(decM.Params[2])
	nCur, nPrev := 0, 0
	var oks []core.Guard
	for i, cc := range calls {
		cc := cc
		a, ai := core.CallResult(core.Strip(cc.Call.Args[ki]))
		b, bi := core.CallResult(core.Strip(cc.Call.Args[kk]))
		okc := a != nil && a == b && ai == 0 && bi == 1 && a.Common().IsInvoke() && core.Strip(a.Common().Value) == core.Strip(keySrc)
		meth := "?"
		if a != nil && a.Common().IsInvoke() {
			meth = a.Common().Method.Name()
		}
		r.Check(okc && (meth == "X25519EncryptionKey" || meth == "PreviousX25519EncryptionKey"), "R-C11.1", fmt.Sprintf("nodeenrollment.DecryptMessage attempt#%d key pair", i), p.Pos(cc.Pos()),
			"(key ID, key) = keySource."+meth+"()", "the key ID and the key of a decrypt attempt do not come from one producer call on the key source (a message is accepted under a key ID the receiver did not derive for that key)")
		if meth == "X25519EncryptionKey" {
			nCur++
		} else if meth == "PreviousX25519EncryptionKey" {
			nPrev++
		}
		ct := core.Strip(cc.Call.Args[2])
		r.Check(ct == ssa.Value(decM.Params[1]), "R-C11.2", fmt.Sprintf("nodeenrollment.DecryptMessage attempt#%d ciphertext", i), p.Pos(cc.Pos()), "the ciphertext parameter", "an attempt decrypts something other than the given ciphertext")
		gOK := core.ErrNil(fmt.Sprintf("attempt#%d", i), func(x *ssa.Call) bool { return x == cc })
		oks = append(oks, gOK)
		// after a successful attempt only success returns are reachable
		if okT, succ, _, _ := errTestEdges(cc); okT {
			bad := ""
			for x := range reachFrom(succ, nil) {
				if ret, ok := x.Instrs[len(x.Instrs)-1].(*ssa.Return); ok && core.ReturnErrKind(ret, 0) == core.ErrNonNil {
					bad = p.Pos(ret.Pos())
				}
				for _, in := range x.Instrs {
					if c2, ok := in.(*ssa.Call); ok && c2 != cc && c2.Common().StaticCallee() == decK {
						bad = "another attempt at " + p.Pos(c2.Pos())
					}
				}
			}
			r.Check(bad == "", "R-C11.2", fmt.Sprintf("nodeenrollment.DecryptMessage attempt#%d success is final", i), p.Pos(cc.Pos()), "a successful attempt leads only to the success return", "after a successful attempt the function can still fail or overwrite the result: "+bad)
		} else {
			r.Bad("R-C11.2", fmt.Sprintf("nodeenrollment.DecryptMessage attempt#%d success is final", i), p.Pos(cc.Pos()), "the error of a decrypt attempt is not tested")
		}
	}
	r.Check(nCur >= 1 && nPrev >= 1, "R-C11.2", "nodeenrollment.DecryptMessage tries current and previous key", p.Pos(decM.Pos()), fmt.Sprintf("%d current-key and %d previous-key attempts", nCur, nPrev), "the current key or the recorded previous key is never tried")
	gAny := core.AnyOf("one attempt succeeded", oks...)
	for i, ret := range core.SuccessReturns(decM) {
		res := core.CutReach(p, decM, gAny, ret.Block())
		r.CutOb(p, "R-C11.2", fmt.Sprintf("nodeenrollment.DecryptMessage success-return#%d", i), p.Pos(ret.Pos()), res, gAny)
	}
	// result written only after Decrypt success
	resultP := ssa.Value(decK.Params[len(decK.Params)-1])
	gDec := core.ErrNil("aead Decrypt", func(x *ssa.Call) bool { return x == da.op })
	nU := 0
	for _, u := range callsNamed(decK, "google.golang.org/protobuf/proto.Unmarshal") {
		if core.Strip(u.Call.Args[1]) != resultP {
			continue
		}
		nU++
		res := core.CutReach(p, decK, gDec, u.Block())
		r.CutOb(p, "R-C11.2", "nodeenrollment.decryptWithKey result written after Decrypt success", p.Pos(u.Pos()), res, gDec)
		r.Check(core.Strip(u.Call.Args[0]) == extractOf(da.op, 0), "R-C11.2", "nodeenrollment.decryptWithKey result is the decrypted plaintext", p.Pos(u.Pos()), "Unmarshal(plaintext, result)", "the result is not unmarshalled from the decrypted plaintext")
	}
	if nU == 0 {
		r.Unk("R-C11.2", "nodeenrollment.decryptWithKey result", p.Pos(decK.Pos()), "result is never unmarshalled")
	}
	for i, ret := range core.SuccessReturns(decK) {
		res := core.CutReach(p, decK, gDec, ret.Block())
		r.CutOb(p, "R-C11.2", fmt.Sprintf("nodeenrollment.decryptWithKey success-return#%d", i), p.Pos(ret.Pos()), res, gDec)
	}

	return da
}


// flipGuard: the fact holds on the other edge.
func flipGuard(g core.Guard) core.Guard {
	return core.Guard{Name: "not " + g.Name, Match: func(cond ssa.Value) (int, bool) {
		s, ok := g.Match(cond)
		return 1 - s, ok
	}}
}


// c11SizeBounds: R-C11.5.
func c11SizeBounds(c *Ctx) {
	p, r := c.P, c.R
	enc := c.P.Func("", "EncryptMessage")
	dec := c.P.Func("", "DecryptMessage")
	if enc == nil || dec == nil {
		return
	}
	ct := ssa.Value(paramNamedOrTyped(dec, 1))
	var decBounds []lenBound
	for _, b := range upperBoundTests(dec) {
		// the ciphertext parameter, or bytes derived from it (the unmarshalled blob's ciphertext)
		if b.Val == ct || core.PathOf(b.Val).Last() == "Ciphertext" {
			decBounds = append(decBounds, b)
		}
	}
	if len(decBounds) == 0 {
		r.OK("R-C11.5", "nodeenrollment.DecryptMessage upper bound on the ciphertext", p.Pos(dec.Pos()), "none: every message EncryptMessage can produce is accepted by size")
		return
	}
	// the bytes EncryptMessage returns
	returned := map[ssa.Value]bool{}
	for _, site := range tailReturnSites(enc) {
		ret := site.Instr.(*ssa.Return)
		site.In(func() { returned[core.Strip(ret.Results[0])] = true })
	}
	encK := int64(-1)
	for _, b := range upperBoundTests(enc) {
		if returned[b.Val] && (encK < 0 || b.K < encK) {
			encK = b.K
		}
	}
	for i, b := range decBounds {
		r.Check(encK >= 0 && encK <= b.K, "R-C11.5", fmt.Sprintf("nodeenrollment.DecryptMessage ciphertext bound#%d", i), p.Pos(b.If.Pos()),
			fmt.Sprintf("EncryptMessage bounds its output by %d <= %d", encK, b.K),
			fmt.Sprintf("DecryptMessage rejects ciphertexts longer than %d bytes but EncryptMessage does not bound the bytes it returns by that much (it bounds a different quantity or nothing): messages just under the limit encrypt but can never be decrypted", b.K))
	}
}

// paramNamedOrTyped returns parameter i of fn.
func paramNamedOrTyped(fn *ssa.Function, i int) *ssa.Parameter {
	if i < len(fn.Params) {
		return fn.Params[i]
	}
	return nil
}

// blobRoots: the values that denote the blob handed to the wrapper - the argument itself and, when it is the
// result of a package-local helper that builds (and may length-check) it, the values that helper returns.
func blobRoots(fn *ssa.Function, blob ssa.Value) map[ssa.Value]bool {
	roots := map[ssa.Value]bool{blob: true}
	hv, idx := blob, 0
	if ex, isEx := blob.(*ssa.Extract); isEx {
		hv, idx = ex.Tuple, ex.Index
	}
	if hc, isCall := hv.(*ssa.Call); isCall {
		if h := hc.Common().StaticCallee(); h != nil && h.Pkg == fn.Pkg && len(h.Blocks) > 0 {
			for _, hb := range h.Blocks {
				if ret, isRet := hb.Instrs[len(hb.Instrs)-1].(*ssa.Return); isRet && idx < len(ret.Results) {
					roots[core.Strip(ret.Results[idx])] = true
				}
			}
		}
	}
	return roots
}
