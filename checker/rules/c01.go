package rules

import (
	"fmt"
	"go/types"
	"sort"
	"strings"

	"nechk/core"

	"golang.org/x/tools/go/ssa"
)

func init() { All["C01"] = c01 }

// fetchAnchors resolves what several properties need from
// registration.FetchNodeCredentials.
type fetchAnchors struct {
	fn       *ssa.Function
	req      *ssa.Parameter  // *FetchNodeCredentialsRequest
	validate *ssa.Call       // request-validation call
	R        ssa.Value       // validated *FetchNodeCredentialsInfo
	encrypts []*ssa.Call     // EncryptMessage calls (in fn or the helpers it was split into)
	K        ssa.Value       // key source of EncryptMessage (node record), as a value of fn
	credRets []*ssa.Return   // returns carrying a non-empty response
	encSites []core.DeepSite // the EncryptMessage calls with their call chains
	retSites []core.DeepSite // the returns that build the non-empty response, with their call chains
}

// isTokenValidator: a helper that takes the activation-token nonce (an anchor of its own).
func isTokenValidator(h *ssa.Function) bool {
	return paramOfType(h, typesPkg, "ServerLedActivationTokenNonce") != nil || helperOK(h) && false
}

// stopAtAnchors: helpers that rules anchor in are not looked into when a function's split is searched.
func stopAtAnchors(h *ssa.Function) bool {
	return isTokenValidator(h) || (theAuthHelper != nil && h == theAuthHelper)
}

// theAuthHelper is set by resolveFetch.
var theAuthHelper *ssa.Function

// callsStore: (*NodeInformation).Store is called by h or a part it was split into (the authorisation helper).
func callsStore(h *ssa.Function) bool {
	return len(core.SplitCalls(h, nil, "(*"+typesPkg+".NodeInformation).Store")) > 0
}

// validatorCall finds the call in fn that validates the fetch request: a
// module callee returning (*FetchNodeCredentialsInfo, error) given the
// request parameter.
func validatorCall(fn *ssa.Function, req ssa.Value) *ssa.Call {
	for _, ci := range core.AllCalls(fn) {
		c, ok := ci.(*ssa.Call)
		if !ok {
			continue
		}
		cal := c.Common().StaticCallee()
		if cal == nil || !core.InModule(cal) {
			continue
		}
		res := cal.Signature.Results()
		if res.Len() != 2 || !namedType(res.At(0).Type(), typesPkg, "FetchNodeCredentialsInfo") || !core.IsErrorType(res.At(1).Type()) {
			continue
		}
		for _, a := range c.Call.Args {
			if core.Strip(a) == req {
				return c
			}
		}
	}
	return nil
}

func extractOf(c *ssa.Call, idx int) ssa.Value {
	for _, r := range *c.Referrers() {
		if e, ok := r.(*ssa.Extract); ok && e.Index == idx {
			return e
		}
	}
	return nil
}

// responseIsEmpty reports whether v is a freshly allocated message with no
// field stores (new(T) / &T{}).
func freshAllocNoStores(v ssa.Value) bool {
	al, ok := core.Strip(v).(*ssa.Alloc)
	if !ok {
		return false
	}
	for _, r := range *al.Referrers() {
		switch r.(type) {
		case *ssa.FieldAddr:
			return false
		}
	}
	return true
}

func resolveFetch(c *Ctx, rule string) *fetchAnchors {
	p, r := c.P, c.R
	fn := c.need(rule, "registration", "FetchNodeCredentials")
	if fn == nil {
		return nil
	}
	a := &fetchAnchors{fn: fn}
	theAuthHelper = authHelper(c, rule)
	a.req = paramOfType(fn, typesPkg, "FetchNodeCredentialsRequest")
	if a.req == nil {
		r.Unk(rule, "registration.FetchNodeCredentials request parameter", p.Pos(fn.Pos()), "no *FetchNodeCredentialsRequest parameter")
		return nil
	}
	a.validate = validatorCall(fn, a.req)
	if a.validate == nil {
		r.Unk(rule, "registration.FetchNodeCredentials validation call", p.Pos(fn.Pos()), "no call validating the request (callee returning (*FetchNodeCredentialsInfo, error)) found")
		return nil
	}
	r.Fn(core.FuncName(a.validate.Common().StaticCallee()))
	a.R = extractOf(a.validate, 0)
	a.encSites = core.SplitCalls(fn, stopAtAnchors, mod+".EncryptMessage")
	for _, site := range a.encSites {
		a.encrypts = append(a.encrypts, site.Instr.(*ssa.Call))
		if len(site.Chain) > 0 {
			r.Fn(core.FuncName(site.Fn))
		}
	}
	if len(a.encrypts) == 0 || a.R == nil {
		r.Unk(rule, "registration.FetchNodeCredentials EncryptMessage call", p.Pos(fn.Pos()), "no EncryptMessage call / validated info value found")
		return nil
	}
	bad := false
	for _, site := range a.encSites {
		e := site.Instr.(*ssa.Call)
		site.In(func() {
			k := core.Strip(e.Call.Args[2])
			// the record as a value of fn (a helper parameter stands for the argument)
			if kp := core.PathOf(k); len(kp.Fields) == 0 {
				k = kp.Root
			}
			if a.K == nil {
				a.K = k
			} else if a.K != k {
				bad = true
			}
		})
	}
	if bad {
		r.Unk(rule, "registration.FetchNodeCredentials key source", p.Pos(fn.Pos()), "EncryptMessage calls use different key sources; rule supports one record")
		return nil
	}
	// returns that build a non-empty response: in fn, or in the helper whose result fn returns
	var collect func(f *ssa.Function, chain []ssa.CallInstruction, depth int)
	collect = func(f *ssa.Function, chain []ssa.CallInstruction, depth int) {
		for _, ret := range core.SuccessReturns(f) {
			v := ret.Results[0]
			if core.IsNilConst(v) || freshAllocNoStores(v) {
				continue
			}
			if call, idx := core.CallResult(core.Strip(v)); call != nil && idx == 0 && depth < core.InterDepth {
				if h := core.ModuleCallee(call.Common()); h != nil && h != f && !stopAtAnchors(h) && namedType(h.Signature.Results().At(0).Type(), typesPkg, "FetchNodeCredentialsResponse") {
					collect(h, append(append([]ssa.CallInstruction{}, chain...), call), depth+1)
					continue
				}
			}
			a.credRets = append(a.credRets, ret)
			a.retSites = append(a.retSites, core.DeepSite{Instr: ret, Fn: f, Chain: chain})
		}
	}
	collect(fn, nil, 0)
	if len(a.credRets) == 0 {
		r.Unk(rule, "registration.FetchNodeCredentials credential return", p.Pos(fn.Pos()), "no return carrying a non-empty response found")
		return nil
	}
	return a
}

// nodeRecordSources flattens the phi web of K into its non-phi sources.
func flattenPhi(v ssa.Value) []ssa.Value {
	seen := map[ssa.Value]bool{}
	var out []ssa.Value
	var walk func(x ssa.Value)
	walk = func(x ssa.Value) {
		x = core.Strip(x)
		if seen[x] {
			return
		}
		seen[x] = true
		if ph, ok := x.(*ssa.Phi); ok {
			for _, e := range ph.Edges {
				walk(e)
			}
			return
		}
		out = append(out, x)
	}
	walk(v)
	return out
}

func c01(c *Ctx) {
	p, r := c.P, c.R
	r.Rule("R-C01.1", "in registration.FetchNodeCredentials every path to EncryptMessage and to every return of a non-empty response passes: success of request validation, and byte-equality of K.RegistrationNonce/R.Nonce, K.CertificatePublicKeyPkix/R.CertificatePublicKeyPkix, K.EncryptionPublicKeyBytes/R.EncryptionPublicKeyBytes, where K is the record used as encryption key source and R the validated request info")
	r.Rule("R-C01.2", "every source of K is (a) LoadNodeInformation for the key ID of R.CertificatePublicKeyPkix, (b) the authorisation helper or (c) the token validator called with R; nothing else (no fresh literal, no record loaded for the re-wrapping key)")
	r.Rule("R-C01.3", "the authorising call in the wrapped-registration branch is cut by success of the decrypt that produced the registration info and by byte-equality of info.Nonce/R.Nonce and info.CertificatePublicKeyPkix/R.CertificatePublicKeyPkix; info comes only from DecryptWrappedRegistrationInfo(R) or from DecryptMessage with a loaded record as key source")
	r.Rule("R-C01.4", "in the node-led branch (len(R.Nonce)==NonceSize) no storage write, removal or certificate minting is reachable before the branch rejoins, and every success return inside the branch is an empty response")
	r.Rule("R-C01.5", "(*NodeInformation).Store is called only from the authorisation helper; the helper only from AuthorizeNode, FetchNodeCredentials and the token validator")
	r.Rule("R-C01.6", "in registration.AuthorizeNode the authorising call is cut by len(R.Nonce)==NonceSize, by success of validation and by errors.Is(loadErr, ErrNotFound) for the record of R's key ID")
	r.Rule("R-C01.8", "registration.DecryptWrappedRegistrationInfo: every non-error return hands out the message filled by proto.Unmarshal of the plaintext that opts.WithRegistrationWrapper.Decrypt produced from the blob unmarshalled from R.WrappedRegistrationInfo, after both succeeded; nothing else (no value taken from the request itself)")
	r.Rule("R-C01.7", "every fmt.Errorf that carries the error of a storage load on the way to an errors.Is(_, ErrNotFound) test uses %w for it (types.Load*, back-end Load)")
	r.NotDecided = append(r.NotDecided, "that stored records are exactly those created by an operator or an earlier enrollment (history)", "token freshness beyond C06", "cryptographic meaning of sealed registration info")

	a := resolveFetch(c, "R-C01.1")
	if a == nil {
		return
	}
	gValid := fetchBinding(c, a, "R-C01.1")
	fn, R := a.fn, a.R

	kProvenance(c, a, "R-C01.2")

	// R-C01.3 wrapped-info branch
	c01Wrapped(c, a, gValid)

	// R-C01.4 node-led branch has no write effects
	cg := core.BuildCallGraph(p)
	gLen := core.LenEquals("R.Nonce==NonceSize", core.FieldOf(R, "Nonce"), 32)
	found := false
	for _, site := range core.SplitFind(fn, stopAtAnchors, func(in ssa.Instruction) bool { _, ok := in.(*ssa.If); return ok }) {
		ifi := site.Instr.(*ssa.If)
		b := ifi.Block()
		s, m := 0, false
		site.In(func() { s, m = core.MatchCond(gLen, ifi.Cond, nil) })
		if !m {
			continue
		}
		found = true
		head := b.Succs[s]
		var bad []string
		for _, x := range site.Fn.Blocks {
			if !head.Dominates(x) {
				continue
			}
			for _, in := range x.Instrs {
				if ci, ok := in.(ssa.CallInstruction); ok {
					eff := cg.CallEffects(ci)
					for _, e := range []string{core.EffStore, core.EffRemove, core.EffMint} {
						if eff[e] {
							bad = append(bad, p.Pos(in.Pos())+" "+shortName(core.CalleeName(ci.Common()))+" may "+e)
						}
					}
				}
				if ret, ok := in.(*ssa.Return); ok && core.ReturnErrKind(ret, 1) != core.ErrNonNil {
					if namedType(ret.Results[0].Type(), typesPkg, "FetchNodeCredentialsResponse") && !core.IsNilConst(ret.Results[0]) && !freshAllocNoStores(ret.Results[0]) {
						bad = append(bad, p.Pos(ret.Pos())+" success return of a non-empty response inside the node-led branch")
					}
				}
			}
		}
		sort.Strings(bad)
		r.Check(len(bad) == 0, "R-C01.4", "registration.FetchNodeCredentials node-led branch", p.Pos(ifi.Cond.Pos()),
			"no storage write/remove, no minting and only empty success returns inside the branch", strings.Join(bad, "; "))
	}
	if !found {
		r.Unk("R-C01.4", "registration.FetchNodeCredentials node-led branch", p.Pos(fn.Pos()), "no len(R.Nonce)==NonceSize dispatch found")
	}

	// R-C01.5 who may create node records
	store := c.need("R-C01.5", "types", "(*NodeInformation).Store")
	if store != nil {
		helper := authHelper(c, "R-C01.5")
		callers := cg.Callers[store]
		var hparts map[*ssa.Function]bool
		if helper != nil {
			hparts = splitFuncs(helper, nil)
		}
		for _, cal := range callers {
			nm := core.FuncName(cal)
			if helper != nil && (cal == helper || hparts[cal]) {
				r.OK("R-C01.5", "caller of (*NodeInformation).Store: "+nm, p.Pos(cal.Pos()), "the authorisation helper (or a part it was split into)")
			} else {
				r.Bad("R-C01.5", "caller of (*NodeInformation).Store: "+nm, p.Pos(cal.Pos()), "node records may only be written by the authorisation helper")
			}
		}
		if helper != nil {
			r.Fn(core.FuncName(helper))
			// reviewed callers: the two entry points, the token validator, and the parts they were split into
			allowedFn := map[*ssa.Function]bool{}
			for _, mf := range p.ModuleFuncs() {
				nm := core.FuncName(mf)
				isValidator := helperOK(mf) && paramOfType(mf, typesPkg, "ServerLedActivationTokenNonce") != nil
				if nm == "registration.AuthorizeNode" || nm == "registration.FetchNodeCredentials" || isValidator {
					allowedFn[mf] = true
					for part := range splitFuncs(mf, nil) {
						allowedFn[part] = true
					}
				}
			}
			for _, cal := range cg.Callers[helper] {
				nm := core.FuncName(cal)
				if hparts[cal] {
					continue
				}
				r.Check(allowedFn[cal], "R-C01.5", "caller of authorisation helper: "+nm, p.Pos(cal.Pos()),
					"reviewed caller (guards checked by R-C01.3 / R-C01.6 / C06)", "unreviewed caller of the authorisation helper: its guards are not checked by any rule")
			}
		}
	}

	// R-C01.6 operator path
	c01Authorize(c)

	// R-C01.7 sentinel survives wrapping
	c01Wrapping(c)
	c01Unwrap(c)

	// clause (b): the activation-token path (C06's validator rules, evaluated here too)
	c.R.Rule("R-C06.1", "token validator: authorisation only after loading the entry under the ID derived from both token halves, non-nil/non-zero creation time, the expiry test, successful removal of the entry and the existing-record test (C06's rule, evaluated here for clause (b))")
	c06Validator(c)
}

func c01Wrapped(c *Ctx, a *fetchAnchors, gValid core.Guard) {
	p, r := c.P, c.R
	fn, R := a.fn, a.R
	// authorising calls in fn: callee (…*FetchNodeCredentialsInfo…) (*NodeInformation, error) without a token parameter
	var authCalls []*ssa.Call
	ah := authHelper(c, "R-C01.3")
	for _, site := range core.SplitFind(fn, func(h *ssa.Function) bool { return isTokenValidator(h) || h == ah }, func(in ssa.Instruction) bool {
		call, ok := in.(*ssa.Call)
		return ok && ah != nil && call.Common().StaticCallee() == ah
	}) {
		authCalls = append(authCalls, site.Instr.(*ssa.Call))
	}
	if len(authCalls) == 0 {
		r.Unk("R-C01.3", "registration.FetchNodeCredentials authorising call", p.Pos(fn.Pos()), "no direct call to the authorisation helper found in the wrapped-registration branch")
		return
	}
	isInfo := func(pth core.Path, field string) bool {
		return pth.HasFields(field) && pth.Root != R && namedType(pth.Root.Type(), typesPkg, "WrappingRegistrationFlowInfo")
	}
	// collect info roots used in the comparisons
	infoRoots := map[ssa.Value]map[ssa.Value]ssa.Value{} // root -> the frame substitution it was seen under
	mkEq := func(field string) core.Guard {
		return core.BytesEq("info."+field+", R."+field, func(pp core.Path) bool {
			if isInfo(pp, field) {
				if _, have := infoRoots[pp.Root]; !have {
					infoRoots[pp.Root] = core.SubstSnapshot()
				}
				return true
			}
			return false
		}, core.FieldOf(R, field))
	}
	gDecrypt := core.ErrNil("decrypt registration info", core.CallNamed(mod+"/registration.DecryptWrappedRegistrationInfo", mod+".DecryptMessage"))
	for i, ac := range authCalls {
		for _, g := range []core.Guard{gValid, gDecrypt, mkEq("Nonce"), mkEq("CertificatePublicKeyPkix")} {
			res := core.CutReach(p, fn, g, ac.Block())
			r.CutOb(p, "R-C01.3", fmt.Sprintf("registration.FetchNodeCredentials authorise-call#%d guard=%s", i, g.Name), p.Pos(ac.Pos()), res, g)
		}
	}
	// provenance of info
	n := 0
	var roots []ssa.Value
	for root := range infoRoots {
		roots = append(roots, root)
	}
	sort.Slice(roots, func(i, j int) bool { return roots[i].Pos() < roots[j].Pos() })
	for _, root := range roots {
		core.WithSubst(infoRoots[root], func() {
			eachSource(root, func(src ssa.Value) {
				construct := fmt.Sprintf("registration.FetchNodeCredentials registration-info source#%d", n)
				n++
				if core.IsNilConst(src) {
					r.OK("R-C01.3", construct+" nil", p.Pos(fn.Pos()), "nil initial value")
					return
				}
				if call, idx := core.CallResult(src); call != nil && idx == 0 &&
					core.CalleeName(call.Common()) == mod+"/registration.DecryptWrappedRegistrationInfo" {
					passesR := len(call.Call.Args) > 1 && core.Strip(call.Call.Args[1]) == R
					r.Check(passesR, "R-C01.3", construct+" DecryptWrappedRegistrationInfo", p.Pos(call.Pos()),
						"info unsealed with the server's registration wrapper from the validated request info", "DecryptWrappedRegistrationInfo is not given the validated request info")
					return
				}
				if al, ok := src.(*ssa.Alloc); ok {
					// must be the result argument of DecryptMessage whose key source is a loaded record
					good, why := false, "allocation is never filled by DecryptMessage"
					for _, dsite := range core.SplitCalls(fn, stopAtAnchors, mod+".DecryptMessage") {
						dm := dsite.Instr.(*ssa.Call)
						dsite.In(func() {
							if len(dm.Call.Args) >= 4 && core.Strip(dm.Call.Args[3]) == al {
								loaded := true
								nk := 0
								eachSource(dm.Call.Args[2], func(ks ssa.Value) {
									nk++
									kc, ki := core.CallResult(ks)
									if !(kc != nil && ki == 0 && core.CalleeName(kc.Common()) == typesPkg+".LoadNodeInformation") {
										loaded = false
									}
								}, typesPkg+".LoadNodeInformation")
								ct := core.PathOf(dm.Call.Args[1])
								if loaded && nk > 0 && ct.Root == ssa.Value(a.req) {
									good, why = true, "filled by DecryptMessage(req."+ct.Last()+") under a record loaded from storage"
								} else {
									why = "DecryptMessage key source is not a record loaded from storage or ciphertext is not a request field"
								}
							}
						})
					}
					r.Check(good, "R-C01.3", construct+" DecryptMessage result", p.Pos(al.Pos()), why, why)
					return
				}
				r.Bad("R-C01.3", construct, p.Pos(src.Pos()), "unreviewed source of registration info: "+core.ValueName(src))
			}, mod+"/registration.DecryptWrappedRegistrationInfo")
		})
	}
	if n == 0 {
		r.Unk("R-C01.3", "registration.FetchNodeCredentials registration-info source", p.Pos(fn.Pos()), "no registration info value compared with the request found")
	}
}

func c01Authorize(c *Ctx) {
	p, r := c.P, c.R
	fn := c.need("R-C01.6", "registration", "AuthorizeNode")
	if fn == nil {
		return
	}
	req := paramOfType(fn, typesPkg, "FetchNodeCredentialsRequest")
	vcall := validatorCall(fn, req)
	if req == nil || vcall == nil {
		r.Unk("R-C01.6", "registration.AuthorizeNode validation call", p.Pos(fn.Pos()), "no validation call found")
		return
	}
	R := extractOf(vcall, 0)
	var auth []*ssa.Call
	for _, ci := range core.AllCalls(fn) {
		call, ok := ci.(*ssa.Call)
		if !ok || call == vcall {
			continue
		}
		cal := call.Common().StaticCallee()
		if cal != nil && core.InModule(cal) && cal.Signature.Results().Len() == 2 &&
			namedType(cal.Signature.Results().At(0).Type(), typesPkg, "NodeInformation") && paramOfType(cal, typesPkg, "FetchNodeCredentialsInfo") != nil {
			auth = append(auth, call)
		}
	}
	if len(auth) == 0 {
		r.Unk("R-C01.6", "registration.AuthorizeNode authorising call", p.Pos(fn.Pos()), "no call to the authorisation helper")
		return
	}
	isLoad := func(x *ssa.Call) bool {
		if core.CalleeName(x.Common()) != typesPkg+".LoadNodeInformation" {
			return false
		}
		idc, i0 := core.CallResult(x.Call.Args[2])
		if idc == nil || i0 != 0 || core.CalleeName(idc.Common()) != mod+".KeyIdFromPkix" {
			return false
		}
		ap := core.PathOf(idc.Call.Args[0])
		return ap.Root == R && ap.HasFields("CertificatePublicKeyPkix")
	}
	gs := []core.Guard{
		core.ErrNil("validate", func(x *ssa.Call) bool { return x == vcall }),
		core.LenEquals("R.Nonce==NonceSize", core.FieldOf(R, "Nonce"), 32),
		core.ErrIs("LoadNodeInformation(keyId(R))", isLoad, mod+".ErrNotFound"),
	}
	for i, ac := range auth {
		passesR := false
		for _, arg := range ac.Call.Args {
			if core.Strip(arg) == R {
				passesR = true
			}
		}
		r.Check(passesR, "R-C01.6", fmt.Sprintf("registration.AuthorizeNode authorise-call#%d argument", i), p.Pos(ac.Pos()), "authorises the validated info", "authorises something other than the validated request info")
		for _, g := range gs {
			res := core.CutReach(p, fn, g, ac.Block())
			r.CutOb(p, "R-C01.6", fmt.Sprintf("registration.AuthorizeNode authorise-call#%d guard=%s", i, g.Name), p.Pos(ac.Pos()), res, g)
		}
	}
}

// errorfVerbFor returns the verb used by a fmt.Errorf call for argument value
// v ("" if v is not an argument or the format is not constant).
func errorfVerbFor(call *ssa.Call, match func(ssa.Value) bool) (verb string, found bool) {
	if core.CalleeName(call.Common()) != "fmt.Errorf" || len(call.Call.Args) != 2 {
		return "", false
	}
	format, ok := core.ConstString(call.Call.Args[0])
	if !ok {
		return "", false
	}
	// variadic slice: find stores into the backing array
	sl, ok := call.Call.Args[1].(*ssa.Slice)
	if !ok {
		return "", false
	}
	al, ok := sl.X.(*ssa.Alloc)
	if !ok {
		return "", false
	}
	args := map[int]ssa.Value{}
	for _, ref := range *al.Referrers() {
		ia, ok := ref.(*ssa.IndexAddr)
		if !ok {
			continue
		}
		idx, ok := core.ConstInt(ia.Index)
		if !ok {
			continue
		}
		for _, r2 := range *ia.Referrers() {
			if st, ok := r2.(*ssa.Store); ok && st.Addr == ia {
				args[int(idx)] = st.Val
			}
		}
	}
	verbs := parseVerbs(format)
	for i, v := range args {
		if match(core.Strip(v)) {
			if i < len(verbs) {
				return verbs[i], true
			}
			return "?", true
		}
	}
	return "", false
}

// parseVerbs returns the verb letter of each formatting directive in order.
func parseVerbs(f string) []string {
	var out []string
	for i := 0; i < len(f); i++ {
		if f[i] != '%' {
			continue
		}
		i++
		if i < len(f) && f[i] == '%' {
			continue
		}
		for i < len(f) && strings.ContainsRune("+-# 0123456789.*[]", rune(f[i])) {
			i++
		}
		if i < len(f) {
			out = append(out, string(f[i]))
		}
	}
	return out
}

func c01Wrapping(c *Ctx) {
	p, r := c.P, c.R
	type tgt struct{ rel, name string }
	targets := []tgt{
		{"types", "LoadNodeInformation"}, {"types", "LoadRootCertificates"}, {"types", "LoadNodeCredentials"}, {"types", "LoadServerLedActivationToken"},
		{"types", "LoadNodeInformationSetByNodeId"},
		{"storage/inmem", "(*Storage).Load"}, {"storage/file", "(*Storage).Load"},
	}
	for _, t := range targets {
		fn := c.need("R-C01.7", t.rel, t.name)
		if fn == nil {
			continue
		}
		n := 0
		for _, call := range callsNamed(fn, "fmt.Errorf") {
			verb, found := errorfVerbFor(call, func(v ssa.Value) bool {
				src, idx := core.CallResult(v)
				if src == nil || idx < 0 {
					return false
				}
				if eff, ok := core.StorageMethod(src.Common()); ok {
					return eff == core.EffLoad || eff == core.EffLoadBy
				}
				cal := src.Common().StaticCallee()
				// a module callee from which a storage load is reachable (not judged by its name)
				// in a back end's own Load, the value-reading helper method of the same type is the load
				if cal != nil && fn.Name() == "Load" && cal.Pkg == fn.Pkg && cal.Signature.Recv() != nil && fn.Signature.Recv() != nil &&
					types.Identical(cal.Signature.Recv().Type(), fn.Signature.Recv().Type()) {
					return true
				}
				return cal != nil && core.InModule(cal) && (loadCG(c).Effects(cal)[core.EffLoad] || loadCG(c).Effects(cal)[core.EffLoadBy] || strings.Contains(strings.ToLower(cal.Name()), "load"))
			})
			if !found {
				continue
			}
			n++
			r.Check(verb == "w", "R-C01.7", fmt.Sprintf("%s wrap-of-load-error#%d", core.FuncName(fn), n), p.Pos(call.Pos()),
				"load error wrapped with %w (errors.Is(ErrNotFound) still holds)", "load error formatted with %"+verb+": the ErrNotFound sentinel is lost and callers misclassify absence")
		}
		// direct returns of the load error are fine; a function with neither is undecided
		if n == 0 {
			direct := false
			for _, ret := range core.Returns(fn) {
				for _, v := range ret.Results {
					if src, _ := core.CallResult(v); src != nil {
						if _, ok := core.StorageMethod(src.Common()); ok {
							direct = true
						}
					}
				}
			}
			if direct {
				r.OK("R-C01.7", core.FuncName(fn)+" returns load error unwrapped", p.Pos(fn.Pos()), "sentinel returned as is")
			} else {
				r.Unk("R-C01.7", core.FuncName(fn)+" wrap-of-load-error", p.Pos(fn.Pos()), "no fmt.Errorf wrapping the storage load error and no direct return of it found")
			}
		}
	}
}

// kProvenance checks that every source of the record K used to build the
// fetch response is a load for the request's key ID or an authorisation call
// made with the validated request info.
func kProvenance(c *Ctx, a *fetchAnchors, rule string) {
	p, r := c.P, c.R
	fn, K, R := a.fn, a.K, a.R
	// R-C01.2 provenance of K
	var helperCalls []*ssa.Call
	// (a source produced inside a helper the function was split into is followed
	// into that helper; loads and the authorisation / token helpers are anchors)
	var anchors []string
	anchors = append(anchors, typesPkg+".LoadNodeInformation")
	for _, mf := range p.ModuleFuncs() {
		if mf == theAuthHelper || (helperOK(mf) && isTokenValidator(mf)) {
			anchors = append(anchors, mf.String())
		}
	}
	i := -1
	eachSource(K, func(src ssa.Value) {
		i++
		construct := fmt.Sprintf("registration.FetchNodeCredentials K-source#%d", i)
		if core.IsNilConst(src) {
			r.OK(rule, construct+" nil", p.Pos(fn.Pos()), "nil initial value (dereferencing it cannot yield credentials)")
			return
		}
		call, idx := core.CallResult(src)
		if call == nil || idx != 0 {
			r.Bad(rule, construct, p.Pos(src.Pos()), "record used to build the response is not the result of a load or authorisation call: "+core.ValueName(src))
			return
		}
		name := core.CalleeName(call.Common())
		switch {
		case name == typesPkg+".LoadNodeInformation":
			idc, i0 := core.CallResult(core.Strip(call.Call.Args[2]))
			good := false
			if idc != nil && i0 == 0 && core.CalleeName(idc.Common()) == mod+".KeyIdFromPkix" {
				ap := core.PathOf(idc.Call.Args[0])
				good = ap.Root == R && ap.HasFields("CertificatePublicKeyPkix")
			}
			r.Check(good, rule, construct+" LoadNodeInformation", p.Pos(call.Pos()),
				"record loaded for KeyIdFromPkix(R.CertificatePublicKeyPkix)", "record is loaded for an ID not derived from the validated request's certificate key")
		case helperOK(call.Common().StaticCallee()):
			passesR := false
			for _, arg := range call.Call.Args {
				if core.Strip(arg) == R {
					passesR = true
				}
			}
			helperCalls = append(helperCalls, call)
			r.Check(passesR, rule, construct+" "+shortName(name), p.Pos(call.Pos()),
				"record produced by the authorisation path for the validated info R", "authorisation helper is not called with the validated request info")
		default:
			r.Bad(rule, construct+" "+shortName(name), p.Pos(call.Pos()), "unreviewed source of the record used to build the response")
		}
	}, anchors...)

	_ = helperCalls
}

// helperOK: a registration function (…*FetchNodeCredentialsInfo…) (*NodeInformation, error).
func helperOK(cal *ssa.Function) bool {
	if cal == nil || cal.Pkg == nil || cal.Pkg.Pkg.Path() != mod+"/registration" {
		return false
	}
	res := cal.Signature.Results()
	return res.Len() == 2 && namedType(res.At(0).Type(), typesPkg, "NodeInformation") && paramOfType(cal, typesPkg, "FetchNodeCredentialsInfo") != nil
}

// fetchBinding checks that every EncryptMessage call and every return of a
// non-empty response in FetchNodeCredentials is cut by validation success and
// by the three equalities between the record K and the validated request R.
// It returns the validation guard.
func fetchBinding(c *Ctx, a *fetchAnchors, rule string) core.Guard {
	p, r := c.P, c.R
	fn := a.fn
	K, R := a.K, a.R
	vcall := a.validate
	gValid := core.ErrNil("validate", func(x *ssa.Call) bool { return x == vcall })
	eq := func(kf, rf string) core.Guard {
		return core.BytesEq("K."+kf+", R."+rf, core.FieldOf(K, kf), core.FieldOf(R, rf))
	}
	guards := []core.Guard{gValid, eq("RegistrationNonce", "Nonce"), eq("CertificatePublicKeyPkix", "CertificatePublicKeyPkix"), eq("EncryptionPublicKeyBytes", "EncryptionPublicKeyBytes")}
	type sink struct {
		name string
		in   ssa.Instruction
	}
	var sinks []sink
	for i, e := range a.encrypts {
		sinks = append(sinks, sink{fmt.Sprintf("call EncryptMessage#%d", i), e})
	}
	for i, ret := range a.credRets {
		sinks = append(sinks, sink{fmt.Sprintf("credential-return#%d", i), ret})
	}
	for _, s := range sinks {
		for _, g := range guards {
			res := core.CutReach(p, fn, g, s.in.Block())
			r.CutOb(p, rule, "registration.FetchNodeCredentials sink="+s.name+" guard="+g.Name, p.Pos(s.in.Pos()), res, g)
		}
	}

	return gValid
}

// c01Unwrap: the registration info of the wrapping flow is what the server's
// registration wrapper decrypted - never a value the requester supplied.
func c01Unwrap(c *Ctx) {
	p, r := c.P, c.R
	fn := c.need("R-C01.8", "registration", "DecryptWrappedRegistrationInfo")
	if fn == nil {
		return
	}
	name := core.FuncName(fn)
	R := paramOfType(fn, typesPkg, "FetchNodeCredentialsInfo")
	// the decrypt through the registration wrapper
	var dec *ssa.Call
	for _, ci := range core.AllCalls(fn) {
		cc, ok := ci.(*ssa.Call)
		if !ok || !cc.Common().IsInvoke() || cc.Common().Method.Name() != "Decrypt" {
			continue
		}
		if core.PathOf(cc.Common().Value).HasFields("WithRegistrationWrapper") {
			dec = cc
		}
	}
	if R == nil || dec == nil {
		r.Unk("R-C01.8", name+" anchors", p.Pos(fn.Pos()), fmt.Sprintf("request param=%v registration-wrapper Decrypt=%v", R != nil, dec != nil))
		return
	}
	ums := callsNamed(fn, "google.golang.org/protobuf/proto.Unmarshal")
	// blob given to Decrypt is filled from R.WrappedRegistrationInfo
	var blobUm, outUm *ssa.Call
	var out ssa.Value
	for _, um := range ums {
		src := core.PathOf(um.Call.Args[0])
		dst := core.Strip(um.Call.Args[1])
		if mi, ok := dst.(*ssa.MakeInterface); ok {
			dst = core.Strip(mi.X)
		}
		if src.Root == ssa.Value(R) && src.HasFields("WrappedRegistrationInfo") && len(dec.Call.Args) >= 2 && core.Strip(dec.Call.Args[1]) == dst {
			blobUm = um
		}
		if pc, pi := core.CallResult(core.Strip(um.Call.Args[0])); pc == dec && pi == 0 {
			outUm, out = um, dst
		}
	}
	r.Check(blobUm != nil, "R-C01.8", name+" ciphertext", p.Pos(dec.Pos()), "decrypts the blob unmarshalled from R.WrappedRegistrationInfo", "the registration wrapper does not decrypt the request's WrappedRegistrationInfo")
	if outUm == nil {
		r.Bad("R-C01.8", name+" plaintext", p.Pos(dec.Pos()), "the decrypted plaintext is not unmarshalled into the returned registration info")
		return
	}
	gDec := core.ErrNil("registration-wrapper Decrypt", func(x *ssa.Call) bool { return x == dec })
	gUm := core.ErrNil("Unmarshal(plaintext)", func(x *ssa.Call) bool { return x == outUm })
	ei := core.ErrorResultIndex(fn.Signature)
	n := 0
	for i, ret := range core.Returns(fn) {
		if core.ReturnErrKind(ret, ei) == core.ErrNonNil {
			continue
		}
		n++
		construct := fmt.Sprintf("%s success-return#%d", name, i)
		good := true
		why := ""
		eachSource(core.ReturnOperand(ret, 0), func(v ssa.Value) {
			if core.IsNilConst(v) {
				return
			}
			if v != out {
				good, why = false, core.ValueName(v)
			}
		})
		r.Check(good, "R-C01.8", construct+" value", p.Pos(ret.Pos()), "returns the message the wrapper's plaintext was unmarshalled into",
			"registration info that did not come out of the server's registration wrapper is returned as authentic ("+why+"): the requester can assert its own authorisation")
		for _, g := range []core.Guard{gDec, gUm} {
			res := core.CutReach(p, fn, g, ret.Block())
			r.CutOb(p, "R-C01.8", construct+" guard="+g.Name, p.Pos(ret.Pos()), res, g)
		}
	}
	if n == 0 {
		r.Unk("R-C01.8", name+" success returns", p.Pos(fn.Pos()), "none found")
	}
}

var cachedCG *core.CallGraph

func loadCG(c *Ctx) *core.CallGraph {
	if cachedCG == nil || cachedCG.P != c.P {
		cachedCG = core.BuildCallGraph(c.P)
	}
	return cachedCG
}
