package rules

import (
	"fmt"
	"sort"
	"strings"

	"nechk/core"

	"golang.org/x/tools/go/ssa"
)

func init() { All["C04"] = c04 }

// authHelper finds the authorisation helper: the module function that calls
// (*NodeInformation).Store and takes a *FetchNodeCredentialsInfo.
func authHelper(c *Ctx, rule string) *ssa.Function {
	store := c.need(rule, "types", "(*NodeInformation).Store")
	if store == nil {
		return nil
	}
	reaches := func(fn *ssa.Function) bool {
		return len(core.SplitFind(fn, nil, func(in ssa.Instruction) bool {
			ci, ok := in.(ssa.CallInstruction)
			return ok && ci.Common().StaticCallee() == store
		})) > 0
	}
	var cands []*ssa.Function
	for _, fn := range c.P.ModuleFuncs() {
		if paramOfType(fn, typesPkg, "FetchNodeCredentialsInfo") == nil || paramOfType(fn, typesPkg, "ServerLedActivationTokenNonce") != nil || fn.Parent() != nil {
			continue
		}
		if reaches(fn) {
			cands = append(cands, fn)
		}
	}
	// the innermost one: it does not get to Store through another candidate
	for _, fn := range cands {
		inner := false
		for _, other := range cands {
			if other != fn && splitFuncs(fn, nil)[other] {
				inner = true
			}
		}
		if !inner {
			c.R.Fn(core.FuncName(fn))
			return fn
		}
	}
	c.R.Unk(rule, "authorisation helper", "", "no function taking *FetchNodeCredentialsInfo calls (*NodeInformation).Store")
	return nil
}

// splitFuncs: the functions fn was split into (unexported helpers, methods and
// closures of its package reached through static calls), fn excluded.
func splitFuncs(fn *ssa.Function, stop func(*ssa.Function) bool) map[*ssa.Function]bool {
	out := map[*ssa.Function]bool{}
	for _, site := range core.SplitFind(fn, stop, func(in ssa.Instruction) bool { _, ok := in.(*ssa.Return); return ok }) {
		if site.Fn != fn {
			out[site.Fn] = true
		}
	}
	return out
}

// rangeOverRootPair reports whether v is an element of the literal
// []*RootCertificate{X.Current, X.Next} and returns X.
func rangeOverRootPair(v ssa.Value) (ssa.Value, bool) {
	u, ok := isDeref(core.Strip(v))
	if !ok {
		return nil, false
	}
	ia, ok := u.X.(*ssa.IndexAddr)
	if !ok {
		return nil, false
	}
	elems, ok := sliceLiteralElems(ia.X)
	if !ok || len(elems) != 2 {
		return nil, false
	}
	var root ssa.Value
	names := []string{}
	for _, e := range elems {
		ep := core.PathOf(e)
		if len(ep.Fields) != 1 {
			return nil, false
		}
		if root != nil && ep.Root != root {
			return nil, false
		}
		root = ep.Root
		names = append(names, ep.Fields[0])
	}
	sort.Strings(names)
	if strings.Join(names, ",") != "Current,Next" {
		return nil, false
	}
	return root, true
}

func c04(c *Ctx) {
	defer c04LoadAcceptsNonce(c)
	r := c.R
	r.Rule("R-C04.1", "every x509.CreateCertificate in the authorisation helper uses a template literal that is not a CA, has ExtKeyUsage exactly {ClientAuth}, CommonName and first DNS name = the record ID = KeyIdFromPkix(request certificate key), SubjectKeyId = that key, NotBefore/NotAfter = the issuing root certificate's, public key parsed from that same key, parent and signer from one SigningParams() of the loop's root; the loop ranges over {roots.Current, roots.Next} of the loaded roots; the stored bundle's CA certificate is that root's")
	r.Rule("R-C04.2", "every path to encrypting/returning credentials passes validation success and the three equalities K.RegistrationNonce/R.Nonce, K.CertificatePublicKeyPkix/R.CertificatePublicKeyPkix, K.EncryptionPublicKeyBytes/R.EncryptionPublicKeyBytes (so only the key matching the signed request can open the response and it echoes that request's nonce); the fetch response is built from the record K: NodeCredentials.RegistrationNonce/CertificateBundles from K, server public key derived from K's private key, EncryptMessage(nodeCreds, K), signature = Sign(_, the encrypted bytes placed in the response) by roots.Current's signer")
	r.Rule("R-C04.3", "in the authorisation helper no field of the record is written after its Store call, and the returned record is the stored object or the record reloaded after a duplicate-record error")
	r.Rule("R-C04.4", "HandleFetchNodeCredentialsResponse: every success return and the copy of certificate bundles are cut by successful DecryptMessage(input.EncryptedNodeCredentials, n, new) and by byte-equality of the expected nonce with new.RegistrationNonce")
	r.Rule("R-C04.6", "sibling agreement on the node's nonce: the value HandleFetchNodeCredentialsResponse compares with the decrypted RegistrationNonce has the same sources (the credentials' RegistrationNonce; the base58-decoded activation token option) as the value CreateFetchNodeCredentialsRequest puts into the signed request")
	r.Rule("R-C04.7", "stored credentials can be read back in every flow: LoadNodeCredentials applies no length test to the registration nonce (operator flow: 32 bytes; activation-token flow: the decoded token, longer), so a node can reload its credentials before enrollment completes")
	r.Rule("R-C04.5", "the server encryption private key is a fresh 32-byte buffer filled from the random reader with error and length checked before the record is stored")
	r.NotDecided = append(r.NotDecided, "that enrollment always completes on every back end and configuration (liveness)", "x509/TLS acceptance of the issued chain", "AEAD/X25519 semantics ('only the matching private key can open the response')")

	c04Template(c)
	c04Response(c)
	c04Handle(c)
}

func c04Template(c *Ctx) {
	p, r := c.P, c.R
	H := authHelper(c, "R-C04.1")
	if H == nil {
		return
	}
	hname := core.FuncName(H)
	info := paramOfType(H, typesPkg, "FetchNodeCredentialsInfo")
	// the record literal
	var rec *ssa.Alloc
	for _, b := range H.Blocks {
		for _, in := range b.Instrs {
			if al, ok := in.(*ssa.Alloc); ok && namedType(al.Type(), typesPkg, "NodeInformation") {
				rec = al
			}
		}
	}
	if rec == nil {
		r.Unk("R-C04.1", hname+" record literal", p.Pos(H.Pos()), "no NodeInformation allocation")
		return
	}
	recStores := storesOf(rec)
	// record binding to the request
	bind := func(field, reqField string) {
		ok := len(recStores[field]) == 1
		if ok {
			vp := core.PathOf(recStores[field][0].Val)
			ok = vp.Root == info && vp.HasFields(reqField)
		}
		r.Check(ok, "R-C04.1", hname+" record."+field, p.Pos(rec.Pos()), "record."+field+" = request."+reqField, "record."+field+" is not (only) the validated request's "+reqField)
	}
	bind("CertificatePublicKeyPkix", "CertificatePublicKeyPkix")
	bind("EncryptionPublicKeyBytes", "EncryptionPublicKeyBytes")
	bind("RegistrationNonce", "Nonce")
	idOK := len(recStores["Id"]) == 1
	if idOK {
		kc, i0 := core.CallResult(core.Strip(recStores["Id"][0].Val))
		idOK = kc != nil && i0 == 0 && core.CalleeName(kc.Common()) == mod+".KeyIdFromPkix"
		if idOK {
			ap := core.PathOf(kc.Call.Args[0])
			idOK = ap.Root == info && ap.HasFields("CertificatePublicKeyPkix")
		}
	}
	r.Check(idOK, "R-C04.1", hname+" record.Id", p.Pos(rec.Pos()), "record ID = KeyIdFromPkix(request certificate key)", "record ID is not derived from the request's certificate key")

	// (minting may live in a helper the authorisation function was split into)
	createSites := core.SplitCalls(H, nil, "crypto/x509.CreateCertificate")
	if len(createSites) == 0 {
		r.Unk("R-C04.1", hname+" CreateCertificate", p.Pos(H.Pos()), "no certificate is minted")
		return
	}
	recField := func(v ssa.Value, f string) bool {
		vp := core.PathOf(v)
		return vp.Root == rec && vp.HasFields(f)
	}
	for i, site := range createSites {
		i, cc, siteFn := i, site.Instr.(*ssa.Call), site.Fn
		if siteFn != H {
			r.Fn(core.FuncName(siteFn))
		}
		site.In(func() {
			pre := fmt.Sprintf("%s CreateCertificate#%d ", hname, i)
			pos := p.Pos(cc.Pos())
			var tmpl *ssa.Alloc
			var tsubst map[ssa.Value]ssa.Value
			if vals, subst, h := helperResult(cc.Call.Args[1]); h != nil && len(vals) == 1 {
				r.Fn(core.FuncName(h))
				core.WithSubst(subst, func() { tmpl, _ = core.Strip(vals[0]).(*ssa.Alloc) })
				tsubst = subst
			} else {
				tmpl, _ = core.Strip(cc.Call.Args[1]).(*ssa.Alloc)
			}
			if tmpl == nil {
				r.Unk("R-C04.1", pre+"template", pos, "template is not a local literal (nor one built by a single-return helper)")
				return
			}
			ts := storesOf(tmpl)
			// values stored into the template are read in the frame that built it
			inT := func(f func()) { core.WithSubst(tsubst, f) }
			allowed := map[string]bool{"AuthorityKeyId": true, "SubjectKeyId": true, "ExtKeyUsage": true, "Subject.CommonName": true, "DNSNames": true, "KeyUsage": true, "SerialNumber": true, "NotBefore": true, "NotAfter": true}
			var extra []string
			for f, sts := range ts {
				if allowed[f] {
					continue
				}
				// explicit false / zero is harmless for the CA flags
				harmless := false
				if f == "IsCA" || f == "BasicConstraintsValid" {
					harmless = true
					for _, s := range sts {
						if b, isB := core.ConstBool(s.Val); !isB || b {
							harmless = false
						}
					}
				}
				if !harmless {
					extra = append(extra, f)
				}
			}
			sort.Strings(extra)
			r.Check(len(extra) == 0, "R-C04.1", pre+"template fields", pos, "only reviewed template fields are set; not a CA", "template sets "+strings.Join(extra, ",")+" (CA flag / unreviewed extension on a node leaf)")
			// ExtKeyUsage exactly {ClientAuth}
			eku := false
			if s := ts["ExtKeyUsage"]; len(s) == 1 {
				if elems, ok := sliceLiteralElems(s[0].Val); ok && len(elems) == 1 {
					k, isK := core.ConstInt(elems[0])
					eku = isK && k == 2
				}
			}
			r.Check(eku, "R-C04.1", pre+"ExtKeyUsage", pos, "exactly {ClientAuth}", "extended key usage is not exactly client authentication")
			// key usage has no CertSign (bit 32)
			if s := ts["KeyUsage"]; len(s) == 1 {
				k, isK := core.ConstInt(s[0].Val)
				r.Check(isK && k&32 == 0, "R-C04.1", pre+"KeyUsage", pos, "no certificate-signing usage", "node leaf may sign certificates")
			}
			cn := false
			inT(func() { cn = len(ts["Subject.CommonName"]) == 1 && recField(ts["Subject.CommonName"][0].Val, "Id") })
			r.Check(cn, "R-C04.1", pre+"CommonName", pos, "CommonName = record ID", "CommonName is not the node's key ID")
			dns := false
			inT(func() {
				for _, s := range ts["DNSNames"] {
					if elems, ok := sliceLiteralElems(s.Val); ok && len(elems) >= 1 && recField(elems[0], "Id") {
						dns = true
					}
					// append([]string{id}, more...) built in one expression
					if base, _, ok := appendParts(s.Val); ok {
						if elems, ok := sliceLiteralElems(base); ok && len(elems) >= 1 && recField(elems[0], "Id") {
							dns = true
						}
					}
				}
			})
			r.Check(dns, "R-C04.1", pre+"DNSNames[0]", pos, "first DNS name = record ID", "first DNS name is not the node's key ID")
			ski := false
			inT(func() {
				ski = len(ts["SubjectKeyId"]) == 1 && recField(ts["SubjectKeyId"][0].Val, "CertificatePublicKeyPkix")
			})
			r.Check(ski, "R-C04.1", pre+"SubjectKeyId", pos, "SubjectKeyId = the node's certificate key", "SubjectKeyId is not the node's certificate key (the listener pins this value)")
			// parent / signer from one SigningParams() of the loop's root
			parent := core.Strip(cc.Call.Args[2])
			sp, pi := core.CallResult(parent)
			sg, si := core.CallResult(core.Strip(cc.Call.Args[4]))
			okSP := sp != nil && sp == sg && pi == 0 && si == 1 && core.CalleeName(sp.Common()) == "(*"+typesPkg+".RootCertificate).SigningParams"
			r.Check(okSP, "R-C04.1", pre+"parent and signer", pos, "both from one SigningParams() call", "parent certificate and signing key do not come from the same root's SigningParams()")
			if okSP {
				rootV := sp.Call.Args[0]
				rr, okR := rangeOverRootPair(rootV)
				okLoad := false
				if okR {
					lc, li := core.CallResult(core.Strip(rr))
					okLoad = lc != nil && li == 0 && core.CalleeName(lc.Common()) == typesPkg+".LoadRootCertificates"
				}
				r.Check(okR && okLoad, "R-C04.1", pre+"issuing roots", pos, "one certificate per {Current, Next} of the loaded roots", "certificates are not issued once per current and next root of the loaded root set")
				for _, f := range []string{"NotBefore", "NotAfter"} {
					okT := len(ts[f]) == 1
					if okT {
						inT(func() {
							vp := core.PathOf(ts[f][0].Val)
							okT = vp.Root == parent && vp.HasFields(f)
						})
					}
					r.Check(okT, "R-C04.1", pre+f, pos, f+" = issuing root certificate's "+f, "leaf "+f+" is not the issuing root's (leaf could outlive its root)")
				}
				// bundle CA = that root's certificate
				okB := false
				for _, b := range siteFn.Blocks {
					for _, in := range b.Instrs {
						if al, ok := in.(*ssa.Alloc); ok && namedType(al.Type(), typesPkg, "CertificateBundle") {
							bs := storesOf(al)
							if len(bs["CertificateDer"]) == 1 && core.Strip(bs["CertificateDer"][0].Val) == extractOf(cc, 0) {
								if len(bs["CaCertificateDer"]) == 1 {
									vp := core.PathOf(bs["CaCertificateDer"][0].Val)
									okB = vp.Root == core.Strip(rootV) && vp.HasFields("CertificateDer")
								}
							}
						}
					}
				}
				r.Check(okB, "R-C04.1", pre+"bundle", pos, "bundle = (minted leaf, issuing root's certificate)", "the bundle does not pair the minted leaf with its issuing root's certificate")
			}
			kp, okK := keyFromPkix(cc.Call.Args[3])
			r.Check(okK && kp.Root == rec && kp.HasFields("CertificatePublicKeyPkix"), "R-C04.1", pre+"public key", pos, "certified key parsed from the node's certificate key", "the certified public key is not the node's certificate key")
		})
	}

	// R-C04.5
	sk := recStores["ServerEncryptionPrivateKeyBytes"]
	okMk := len(sk) == 1
	// the buffer(s) the stored value denotes: a local make, or the value a key-generating helper returns
	var buffers []ssa.Value
	if okMk {
		eachSource(sk[0].Val, func(v ssa.Value) {
			if core.IsNilConst(v) {
				return
			}
			buffers = append(buffers, v)
			switch x := v.(type) {
			case *ssa.MakeSlice:
				if k, isK := core.ConstInt(x.Len); !isK || k != 32 {
					okMk = false
				}
			case *ssa.Slice:
				// make([]byte, 32) with constant length is lowered to slicing a new [32]byte
				if al, isAl := x.X.(*ssa.Alloc); !isAl || !strings.Contains(al.Type().String(), "[32]byte") {
					okMk = false
				}
			default:
				okMk = false
			}
		})
		okMk = okMk && len(buffers) > 0
	}
	r.Check(okMk, "R-C04.5", hname+" server key buffer", p.Pos(rec.Pos()), "fresh 32-byte buffer", "server encryption private key is not a fresh 32-byte buffer")
	store := c.P.Func("types", "(*NodeInformation).Store")
	var readCall *ssa.Call
	var readSite core.DeepSite
	for _, site := range core.SplitFind(H, nil, func(in ssa.Instruction) bool {
		ci, ok := in.(*ssa.Call)
		return ok && ci.Common().IsInvoke() && ci.Common().Method.Name() == "Read" && len(ci.Common().Args) == 1
	}) {
		call := site.Instr.(*ssa.Call)
		site.In(func() {
			arg := call.Common().Args[0]
			hit := recField(arg, "ServerEncryptionPrivateKeyBytes")
			for _, b := range buffers {
				if core.Strip(arg) == b {
					hit = true
				}
			}
			if hit {
				readCall, readSite = call, site
			}
		})
	}
	if readCall == nil {
		r.Bad("R-C04.5", hname+" server key fill", p.Pos(H.Pos()), "the server key buffer is not filled by Read from the random reader")
	} else {
		okSrc := false
		readSite.In(func() { okSrc = core.PathOf(readCall.Common().Value).HasFields("WithRandomReader") })
		r.Check(okSrc, "R-C04.5", hname+" server key source", p.Pos(readCall.Pos()), "filled from opts.WithRandomReader", "server key bytes do not come from the configured random reader")
		nv := extractOf(readCall, 0)
		gs := []core.Guard{
			core.ErrNil("Read", func(x *ssa.Call) bool { return x == readCall }),
			core.EnumEq("n == 32", func(pp core.Path) bool { return pp.Root == nv && len(pp.Fields) == 0 }, 32),
		}
		for _, ssite := range core.SplitFind(H, nil, func(in ssa.Instruction) bool {
			ci, ok := in.(*ssa.Call)
			return ok && ci.Common().StaticCallee() == store
		}) {
			sc := ssite.Instr.(*ssa.Call)
			for _, g := range gs {
				res := core.CutReach(p, H, g, sc.Block())
				r.CutOb(p, "R-C04.5", hname+" Store after "+g.Name, p.Pos(sc.Pos()), res, g)
			}
		}
	}

	// R-C04.3
	storeSites := core.SplitFind(H, nil, func(in ssa.Instruction) bool {
		ci, ok := in.(*ssa.Call)
		return ok && ci.Common().StaticCallee() == store
	})
	for i, ssite := range storeSites {
		sc := ssite.Instr.(*ssa.Call)
		okRecv := false
		ssite.In(func() { okRecv = core.Strip(sc.Call.Args[0]) == ssa.Value(rec) })
		r.Check(okRecv, "R-C04.3", fmt.Sprintf("%s Store#%d receiver", hname, i), p.Pos(sc.Pos()), "the built record is stored", "a different object than the built record is stored")
		// when Store lives in a helper, "after Store" is judged from the call that leads to it
		if len(ssite.Chain) > 0 {
			if top, ok := ssite.Chain[0].(*ssa.Call); ok {
				sc = top
			}
		}
		after := reachFrom(sc.Block(), nil)
		var late []string
		for _, fs := range fieldStores(rec) {
			b := fs.St.Block()
			if b == sc.Block() {
				// same block: compare positions
				for _, in := range b.Instrs {
					if in == ssa.Instruction(sc) {
						break
					}
					if in == ssa.Instruction(fs.St) {
						goto before
					}
				}
				late = append(late, fs.Field)
			before:
				continue
			}
			// strictly after: reachable from a successor of the store block
			isAfter := false
			for _, s := range sc.Block().Succs {
				if reachFrom(s, nil)[b] {
					isAfter = true
				}
			}
			_ = after
			if isAfter && !b.Dominates(sc.Block()) {
				late = append(late, fs.Field)
			}
		}
		sort.Strings(late)
		r.Check(len(late) == 0, "R-C04.3", fmt.Sprintf("%s Store#%d no later writes", hname, i), p.Pos(sc.Pos()), "no record field is written after Store", "record fields written after Store (stored record differs from the one used): "+strings.Join(late, ","))
	}
	for i, rsite := range tailReturnSites(H) {
		ret := rsite.Instr.(*ssa.Return)
		ok := false
		rsite.In(func() {
			v := core.Strip(ret.Results[0])
			ok = v == ssa.Value(rec)
			if !ok {
				if lc, li := core.CallResult(v); lc != nil && li == 0 && core.CalleeName(lc.Common()) == typesPkg+".LoadNodeInformation" {
					ip := core.PathOf(lc.Call.Args[2])
					ok = ip.Root == rec && ip.HasFields("Id")
				}
			}
		})
		r.Check(ok, "R-C04.3", fmt.Sprintf("%s success-return#%d value", hname, i), p.Pos(ret.Pos()), "returns the stored record (or the record reloaded under its ID)", "returns a record other than the one stored")
	}
}

func c04Response(c *Ctx) {
	p, r := c.P, c.R
	a := resolveFetch(c, "R-C04.2")
	if a == nil {
		return
	}
	name := "registration.FetchNodeCredentials"
	K := a.K
	// the response is for this request: nonce, certificate key and encryption key of K equal the request's
	fetchBinding(c, a, "R-C04.2")
	for i, site := range a.encSites {
		i, e := i, site.Instr.(*ssa.Call)
		site.In(func() {
			pos := p.Pos(e.Pos())
			msg, ok := core.Strip(e.Call.Args[1]).(*ssa.Alloc)
			if !ok || !namedType(msg.Type(), typesPkg, "NodeCredentials") {
				r.Bad("R-C04.2", fmt.Sprintf("%s EncryptMessage#%d payload", name, i), pos, "payload is not a NodeCredentials literal")
				return
			}
			ms := storesOf(msg)
			for _, f := range []string{"RegistrationNonce", "CertificateBundles"} {
				okf := len(ms[f]) == 1
				if okf {
					vp := core.PathOf(ms[f][0].Val)
					okf = vp.Root == K && vp.HasFields(f)
				}
				r.Check(okf, "R-C04.2", fmt.Sprintf("%s EncryptMessage#%d payload.%s", name, i, f), pos, f+" taken from the record K", f+" in the credentials is not the stored record's (e.g. echoes the request instead)")
			}
			// server public key derives from K.ServerEncryptionPrivateKeyBytes
			okPub := false
			if s := ms["ServerEncryptionPublicKeyBytes"]; len(s) == 1 {
				okPub = derivesFromServerKey(s[0].Val, K)
			}
			r.Check(okPub, "R-C04.2", fmt.Sprintf("%s EncryptMessage#%d payload.ServerEncryptionPublicKeyBytes", name, i), pos, "public half of K's server encryption key", "server public key in the credentials is not derived from the record's server private key")
		})
	}
	for i, site := range a.retSites {
		i, ret := i, site.Instr.(*ssa.Return)
		site.In(func() {
			pos := p.Pos(ret.Pos())
			resp, ok := core.Strip(ret.Results[0]).(*ssa.Alloc)
			if !ok {
				r.Unk("R-C04.2", fmt.Sprintf("%s credential-return#%d", name, i), pos, "response is not a literal")
				return
			}
			rs := storesOf(resp)
			var enc *ssa.Call
			if s := rs["EncryptedNodeCredentials"]; len(s) == 1 {
				ec, ei := core.CallResult(core.Strip(s[0].Val))
				if ec != nil && ei == 0 && core.CalleeName(ec.Common()) == mod+".EncryptMessage" {
					enc = ec
				}
			}
			r.Check(enc != nil, "R-C04.2", fmt.Sprintf("%s credential-return#%d EncryptedNodeCredentials", name, i), pos, "the EncryptMessage result", "response does not carry the EncryptMessage result")
			okSig := false
			if s := rs["EncryptedNodeCredentialsSignature"]; len(s) == 1 && enc != nil {
				sc, si := core.CallResult(core.Strip(s[0].Val))
				if sc != nil && si == 0 && sc.Common().IsInvoke() && sc.Common().Method.Name() == "Sign" && core.Strip(sc.Common().Args[1]) == extractOf(enc, 0) {
					// signer = #1 of roots.Current.SigningParams
					pc, pi := core.CallResult(core.Strip(sc.Common().Value))
					if pc != nil && pi == 1 && strings.HasSuffix(core.CalleeName(pc.Common()), ".RootCertificate).SigningParams") {
						rp := core.PathOf(pc.Call.Args[0])
						lc, li := core.CallResult(rp.Root)
						okSig = rp.HasFields("Current") && lc != nil && li == 0 && core.CalleeName(lc.Common()) == typesPkg+".LoadRootCertificates"
					}
				}
			}
			r.Check(okSig, "R-C04.2", fmt.Sprintf("%s credential-return#%d signature", name, i), pos, "Sign(_, encrypted credentials) by the current root's signer", "the response signature is not over the carried ciphertext by the server's current root")
			okPub := len(rs["ServerEncryptionPublicKeyBytes"]) == 1 && derivesFromServerKey(rs["ServerEncryptionPublicKeyBytes"][0].Val, K)
			r.Check(okPub, "R-C04.2", fmt.Sprintf("%s credential-return#%d server public key", name, i), pos, "public half of K's server encryption key", "server public key in the response is not derived from the record's server private key")
		})
	}
}

// derivesFromServerKey: v = NewPrivateKey(K.ServerEncryptionPrivateKeyBytes).PublicKey().Bytes()
func derivesFromServerKey(v ssa.Value, K ssa.Value) bool {
	bc, _ := core.CallResult(core.Strip(v))
	if bc == nil || !strings.HasSuffix(core.CalleeName(bc.Common()), "PublicKey).Bytes") {
		return false
	}
	pc, _ := core.CallResult(core.Strip(bc.Call.Args[0]))
	if pc == nil || !strings.HasSuffix(core.CalleeName(pc.Common()), "PrivateKey).PublicKey") {
		return false
	}
	nc, ni := core.CallResult(core.Strip(pc.Call.Args[0]))
	if nc == nil || ni != 0 || nc.Common().Method == nil || nc.Common().Method.Name() != "NewPrivateKey" {
		return false
	}
	kp := core.PathOf(nc.Common().Args[0])
	return kp.Root == K && kp.HasFields("ServerEncryptionPrivateKeyBytes")
}

func c04Handle(c *Ctx) {
	p, r := c.P, c.R
	N := c.need("R-C04.4", "types", "(*NodeCredentials).HandleFetchNodeCredentialsResponse")
	if N == nil {
		return
	}
	name := core.FuncName(N)
	n := N.Params[0]
	input := paramOfType(N, typesPkg, "FetchNodeCredentialsResponse")
	decs := callsNamed(N, mod+".DecryptMessage")
	if len(decs) != 1 || input == nil {
		r.Unk("R-C04.4", name+" anchors", p.Pos(N.Pos()), fmt.Sprintf("DecryptMessage calls=%d", len(decs)))
		return
	}
	dec := decs[0]
	ct := core.PathOf(dec.Call.Args[1])
	nw := core.Strip(dec.Call.Args[3])
	r.Check(ct.Root == input && ct.HasFields("EncryptedNodeCredentials") && core.Strip(dec.Call.Args[2]) == n, "R-C04.4", name+" decrypt operands", p.Pos(dec.Pos()),
		"DecryptMessage(input.EncryptedNodeCredentials, n, new)", "the response is not decrypted under the node's own key material")
	gDec := core.ErrNil("DecryptMessage", func(x *ssa.Call) bool { return x == dec })
	gNonce := core.BytesEq("expected nonce, new.RegistrationNonce", func(pp core.Path) bool {
		if len(pp.Fields) == 1 && pp.Root == n && pp.Fields[0] == "RegistrationNonce" {
			return true
		}
		for _, src := range flattenPhi(pp.Root) {
			sp := core.PathOf(src)
			if sp.Root == n && sp.HasFields("RegistrationNonce") {
				continue
			}
			if bc, bi := core.CallResult(src); bc != nil && bi == 0 && strings.HasPrefix(core.CalleeName(bc.Common()), "github.com/mr-tron/base58.") {
				continue
			}
			return false
		}
		return len(pp.Fields) == 0
	}, core.FieldOf(nw, "RegistrationNonce"))
	// R-C04.6: what the node expects is what the node sent
	nonceSources := func(v ssa.Value, recv ssa.Value) (fromCreds, fromToken bool, other string) {
		eachSource(v, func(src ssa.Value) {
			if core.IsNilConst(src) {
				return
			}
			if sp := core.PathOf(src); sp.Root == recv && sp.HasFields("RegistrationNonce") {
				fromCreds = true
				return
			}
			if bc, bi := core.CallResult(src); bc != nil && bi == 0 && strings.HasPrefix(core.CalleeName(bc.Common()), "github.com/mr-tron/base58.") {
				// decode(TrimPrefix(opts.WithActivationToken, ...))
				arg := core.Strip(bc.Call.Args[0])
				if tc, _ := core.CallResult(arg); tc != nil && len(tc.Call.Args) > 0 {
					arg = core.Strip(tc.Call.Args[0])
				}
				if core.PathOf(arg).HasFields("WithActivationToken") {
					fromToken = true
					return
				}
			}
			other = core.ValueName(src)
		})
		return
	}
	if C := c.need("R-C04.6", "types", "(*NodeCredentials).CreateFetchNodeCredentialsRequest"); C != nil {
		var sentCreds, sentToken bool
		sentOther := ""
		nSent := 0
		for _, st := range storesToField(C, "types.FetchNodeCredentialsInfo", "Nonce") {
			nSent++
			a, b, o := nonceSources(st.Val, C.Params[0])
			sentCreds, sentToken = sentCreds || a, sentToken || b
			if o != "" {
				sentOther = o
			}
		}
		var expCreds, expToken bool
		expOther := ""
		nCmp := 0
		for _, cc := range callsNamed(N, "crypto/subtle.ConstantTimeCompare", "bytes.Equal") {
			for k := 0; k < 2; k++ {
				op := core.PathOf(cc.Call.Args[k])
				if op.Root == nw && op.HasFields("RegistrationNonce") {
					nCmp++
					expCreds, expToken, expOther = nonceSources(cc.Call.Args[1-k], n)
				}
			}
		}
		if nSent == 0 || nCmp != 1 {
			r.Unk("R-C04.6", name+" expected nonce", p.Pos(N.Pos()), fmt.Sprintf("stores to the request nonce=%d comparisons with the decrypted nonce=%d", nSent, nCmp))
		} else {
			r.Check(expCreds == sentCreds && expToken == sentToken && expOther == "" && sentOther == "", "R-C04.6", name+" expected nonce agrees with the request's", p.Pos(N.Pos()),
				fmt.Sprintf("both: credentials' nonce=%v, activation-token option=%v", sentCreds, sentToken),
				fmt.Sprintf("the request carries {credentials' nonce=%v, token option=%v %s} but the response is checked against {credentials' nonce=%v, token option=%v %s}: an honest token enrollment cannot complete, or a response echoing a nonce that was never sent is accepted", sentCreds, sentToken, sentOther, expCreds, expToken, expOther))
		}
	}
	type sink struct {
		nm string
		in ssa.Instruction
	}
	var sinks []sink
	for i, ret := range core.SuccessReturns(N) {
		sinks = append(sinks, sink{fmt.Sprintf("success-return#%d", i), ret})
	}
	for i, st := range storesToField(N, "types.NodeCredentials", "CertificateBundles") {
		if core.PathOf(st.Addr).Root == n {
			sinks = append(sinks, sink{fmt.Sprintf("store n.CertificateBundles#%d", i), st})
			vp := core.PathOf(st.Val)
			r.Check(vp.Root == nw && vp.HasFields("CertificateBundles"), "R-C04.4", fmt.Sprintf("%s bundles source#%d", name, i), p.Pos(st.Pos()), "bundles copied from the decrypted credentials", "certificate bundles do not come from the decrypted server message")
		}
	}
	if len(sinks) < 2 {
		r.Unk("R-C04.4", name+" sinks", p.Pos(N.Pos()), "no success return or no copy of certificate bundles found")
	}
	for _, s := range sinks {
		for _, g := range []core.Guard{gDec, gNonce} {
			res := core.CutReach(p, N, g, s.in.Block())
			r.CutOb(p, "R-C04.4", name+" "+s.nm+" guard="+g.Name, p.Pos(s.in.Pos()), res, g)
		}
	}
}


// c04LoadAcceptsNonce: R-C04.7.
func c04LoadAcceptsNonce(c *Ctx) {
	p, r := c.P, c.R
	L := c.need("R-C04.7", "types", "LoadNodeCredentials")
	if L == nil {
		return
	}
	// values stored into the record's RegistrationNonce (the unsealed plaintext)
	nonceVals := map[ssa.Value]bool{}
	for _, site := range core.SplitFind(L, nil, func(in ssa.Instruction) bool { _, ok := in.(*ssa.Store); return ok }) {
		st := site.Instr.(*ssa.Store)
		site.In(func() {
			if strings.TrimPrefix(core.PathOf(st.Addr).Last(), "&") == "RegistrationNonce" {
				nonceVals[core.Strip(st.Val)] = true
			}
		})
	}
	bad := ""
	for _, site := range core.SplitFind(L, nil, func(in ssa.Instruction) bool { _, ok := in.(*ssa.If); return ok }) {
		ifi := site.Instr.(*ssa.If)
		bo, ok := ifi.Cond.(*ssa.BinOp)
		if !ok {
			continue
		}
		for _, side := range []ssa.Value{bo.X, bo.Y} {
			lc, isLen := side.(*ssa.Call)
			if !isLen || core.CalleeName(lc.Common()) != "builtin:len" {
				continue
			}
			other := bo.Y
			if side == bo.Y {
				other = bo.X
			}
			k, isK := core.ConstInt(other)
			if !isK || k == 0 {
				continue // emptiness tests are fine
			}
			site.In(func() {
				v := core.Strip(lc.Call.Args[0])
				if strings.TrimPrefix(core.PathOf(v).Last(), "&") == "RegistrationNonce" || nonceVals[v] {
					bad = fmt.Sprintf("length of the registration nonce compared with %d at %s", k, p.Pos(ifi.Pos()))
				}
			})
		}
	}
	r.Check(bad == "", "R-C04.7", "types.LoadNodeCredentials registration-nonce length", p.Pos(L.Pos()), "no length requirement on the stored nonce", bad+": credentials created for the activation-token flow (token-sized nonce) cannot be loaded, so that enrollment cannot complete")
}
