package rules

import (
	"fmt"
	"go/token"
	"sort"
	"strings"

	"nechk/core"

	"golang.org/x/tools/go/ssa"
)

func init() { All["C02"] = c02 }

func c02(c *Ctx) {
	r := c.R
	r.Rule("R-C02.1", "in the VerifyConnection closure of tls.standardTlsConfig every nil return is cut by len(cs.PeerCertificates)>0 and (the fetch-prefix waiver, or: leaf.Verify(verifyOpts) succeeded for leaf=cs.PeerCertificates[0] with verifyOpts.Roots=the pool parameter, and (no expected key or ConstantTimeCompare(opts.WithExpectedPublicKey, leaf.SubjectKeyId)==1)); the tls.Config literal has ClientAuth>=RequireAnyClientCert, MinVersion TLS1.3, ClientCAs/RootCAs = pool and carries that closure")
	r.Rule("R-C02.2", "the fetch-only waiver option WithAlpnProtoPrefix(<fetch prefix>) is created only in the listener's GetConfigForClient closure, only under HasPrefix(p, <fetch prefix>), and no path leads from the fetch block to the authentication block or back (the break)")
	r.Rule("R-C02.3", "the option list given to tls.ServerConfig is append(_, WithExpectedPublicKey(req.CertificatePublicKeyPkix)) for the request handed to the certificate function")
	r.Rule("R-C02.4", "no remote waiver: after proto.Unmarshal(remote bytes, request) on the authentication branch every path to the certificate function stores the constant false into request.SkipVerification; the constant true is stored only under HasPrefix(p, <fetch prefix>); every field of the request message is classified")
	r.Rule("R-C02.5", "InterceptingListener.Accept returns a connection only after a successful handshake and only on the false edge of HasPrefix(NegotiatedProtocol, <fetch prefix>); the connection is NewConn(tls.Server(conn, {GetConfigForClient: this listener's closure}))")
	r.Rule("R-C02.6", "the gate behind it: C05's rule set (evaluated here too)")
	r.Rule("R-C02.7", "the returned configuration's NextProtos is exactly [protoToReturn]; every non-constant value protoToReturn takes is the loop element under HasPrefix(p, fetch|authenticate prefix); the only constant is the empty string")
	r.NotDecided = append(r.NotDecided, "correctness of crypto/tls and crypto/x509 (possession proof, chain building)", "orderings of register/remove/connect", "assumption A3: the base TLS configuration lists no library-prefixed protocol")
	r.Assume = append(r.Assume, "A3: the application's base TLS configuration does not list library-prefixed protocol names")

	c02Verify(c)
	c02Listener(c)
	c02Accept(c)
	c05(c)
}

func c02Verify(c *Ctx) {
	p, r := c.P, c.R
	std := c.need("R-C02.1", "tls", "standardTlsConfig")
	if std == nil {
		return
	}
	fetchPrefix := c.rootConst("FetchNodeCredsNextProtoV1Prefix")
	// the tls.Config literal and its VerifyConnection closure
	var cfg *ssa.Alloc
	for _, b := range std.Blocks {
		for _, in := range b.Instrs {
			if al, ok := in.(*ssa.Alloc); ok && namedType(al.Type(), "crypto/tls", "Config") {
				cfg = al
			}
		}
	}
	if cfg == nil {
		r.Unk("R-C02.1", "tls.standardTlsConfig tls.Config literal", p.Pos(std.Pos()), "no tls.Config allocation found")
		return
	}
	fields := map[string]ssa.Value{}
	for _, ref := range *cfg.Referrers() {
		if fa, ok := ref.(*ssa.FieldAddr); ok {
			_, fname := core.FieldAddrName(fa)
			for _, r2 := range *fa.Referrers() {
				if st, ok := r2.(*ssa.Store); ok && st.Addr == fa {
					fields[fname] = st.Val
				}
			}
		}
	}
	pool := paramOfType(std, "crypto/x509", "CertPool")
	chkConst := func(field string, ok func(int64) bool, want string) {
		v, has := fields[field]
		k, isK := int64(0), false
		if has {
			k, isK = core.ConstInt(v)
		}
		r.Check(has && isK && ok(k), "R-C02.1", "tls.standardTlsConfig tls.Config."+field, p.Pos(cfg.Pos()), fmt.Sprintf("%s = %d", field, k), field+" must be "+want)
	}
	chkConst("ClientAuth", func(k int64) bool { return k == 2 || k == 4 }, "RequireAnyClientCert or RequireAndVerifyClientCert")
	chkConst("MinVersion", func(k int64) bool { return k >= 0x0304 }, "TLS 1.3")
	for _, f := range []string{"ClientCAs", "RootCAs"} {
		v, has := fields[f]
		r.Check(has && pool != nil && core.Strip(v) == pool, "R-C02.1", "tls.standardTlsConfig tls.Config."+f, p.Pos(cfg.Pos()), f+" is the pool parameter", f+" is not the certificate pool given by the caller")
	}
	vc, has := fields["VerifyConnection"]
	var clo *ssa.Function
	if mc, ok := vc.(*ssa.MakeClosure); has && ok {
		clo, _ = mc.Fn.(*ssa.Function)
	}
	if clo == nil {
		r.Bad("R-C02.1", "tls.standardTlsConfig tls.Config.VerifyConnection", p.Pos(cfg.Pos()), "the configuration sets InsecureSkipVerify-style manual verification but no VerifyConnection closure")
		return
	}
	r.Fn(core.FuncName(clo))
	// verifyOpts.Roots = pool
	if fv := freeVar(clo, "verifyOpts"); fv != nil {
		// find the parent's alloc bound to that free var
		mc := vc.(*ssa.MakeClosure)
		var val ssa.Value
		for i, f := range clo.FreeVars {
			if f == fv {
				val = mc.Bindings[i]
			}
		}
		al, _ := val.(*ssa.Alloc)
		n, good := 0, true
		if al != nil {
			for _, ref := range *al.Referrers() {
				if fa, ok := ref.(*ssa.FieldAddr); ok {
					if _, fname := core.FieldAddrName(fa); fname == "Roots" {
						for _, r2 := range *fa.Referrers() {
							if st, ok := r2.(*ssa.Store); ok && st.Addr == fa {
								n++
								if core.Strip(st.Val) != pool {
									good = false
								}
							}
						}
					}
				}
			}
		}
		r.Check(al != nil && n > 0 && good, "R-C02.1", "tls.standardTlsConfig verifyOpts.Roots", p.Pos(std.Pos()), "verification roots are the pool parameter", "verifyOpts.Roots is not (only) the pool given by the caller")
	} else {
		r.Unk("R-C02.1", "tls.standardTlsConfig verifyOpts.Roots", p.Pos(std.Pos()), "closure does not capture verifyOpts")
	}
	csParam, csSpill := ssa.Value(clo.Params[0]), paramRoot(clo.Params[0])
	isCs := func(v ssa.Value) bool { return v == csParam || v == csSpill }
	isLeaf := func(v ssa.Value) bool {
		u, ok := isDeref(core.Strip(v))
		if !ok {
			return false
		}
		ia, ok := u.X.(*ssa.IndexAddr)
		if !ok {
			return false
		}
		k, isK := core.ConstInt(ia.Index)
		sp := core.PathOf(ia.X)
		return isK && k == 0 && isCs(sp.Root) && sp.HasFields("PeerCertificates")
	}
	waiver := core.Guard{Name: "opts.WithAlpnProtoPrefix == fetch prefix", Match: func(cond ssa.Value) (int, bool) {
		bo, ok := cond.(*ssa.BinOp)
		if !ok || (bo.Op != token.EQL && bo.Op != token.NEQ) {
			return 0, false
		}
		x, y := bo.X, bo.Y
		if _, isC := core.ConstString(x); isC {
			x, y = y, x
		}
		s, isC := core.ConstString(y)
		if !isC || s != fetchPrefix || !core.PathOf(x).HasFields("WithAlpnProtoPrefix") {
			return 0, false
		}
		if bo.Op == token.EQL {
			return 0, true
		}
		return 1, true
	}}
	gs := []core.Guard{
		core.NonEmpty("cs.PeerCertificates", func(pp core.Path) bool { return isCs(pp.Root) && pp.HasFields("PeerCertificates") }),
		core.AnyOf("fetch waiver or leaf.Verify(verifyOpts) succeeded", waiver,
			core.ErrNil("leaf.Verify(verifyOpts)", func(x *ssa.Call) bool {
				if core.CalleeName(x.Common()) != "(*crypto/x509.Certificate).Verify" {
					return false
				}
				vp := core.PathOf(x.Call.Args[1])
				fv, isFv := vp.Root.(*ssa.FreeVar)
				return isLeaf(x.Call.Args[0]) && isFv && fv.Name() == "verifyOpts" && len(vp.Fields) == 0
			})),
		core.AnyOf("fetch waiver, or no expected key, or expected key equals leaf.SubjectKeyId", waiver,
			core.LenEquals("opts.WithExpectedPublicKey", core.AnyRootField("WithExpectedPublicKey"), 0),
			core.BytesEq("opts.WithExpectedPublicKey, leaf.SubjectKeyId", core.AnyRootField("WithExpectedPublicKey"),
				func(pp core.Path) bool { return pp.HasFields("SubjectKeyId") && isLeaf(pp.Root) })),
	}
	rets := core.SuccessReturns(clo)
	if len(rets) == 0 {
		r.Unk("R-C02.1", core.FuncName(clo)+" nil returns", p.Pos(clo.Pos()), "none found")
	}
	for i, ret := range rets {
		for _, g := range gs {
			res := core.CutReach(p, clo, g, ret.Block())
			r.CutOb(p, "R-C02.1", fmt.Sprintf("%s nil-return#%d guard=%s", core.FuncName(clo), i, g.Name), p.Pos(ret.Pos()), res, g)
		}
	}
}

func listenerClosure(c *Ctx, rule string) (*ssa.Function, *ssa.Function) {
	g := c.need(rule, "protocol", "(*InterceptingListener).getTlsConfigForClient")
	if g == nil {
		return nil, nil
	}
	if len(g.AnonFuncs) != 1 {
		c.R.Unk(rule, "protocol.getTlsConfigForClient closure", c.P.Pos(g.Pos()), fmt.Sprintf("%d closures, want 1", len(g.AnonFuncs)))
		return g, nil
	}
	c.R.Fn(core.FuncName(g.AnonFuncs[0]))
	return g, g.AnonFuncs[0]
}

func c02Listener(c *Ctx) {
	p, r := c.P, c.R
	_, G := listenerClosure(c, "R-C02.2")
	if G == nil {
		return
	}
	gname := core.FuncName(G)
	fetchPrefix := c.rootConst("FetchNodeCredsNextProtoV1Prefix")
	authPrefix := c.rootConst("AuthenticateNodeNextProtoV1Prefix")
	anyV := func(ssa.Value) bool { return true }
	gFetch := strPrefixGuard("p, fetch prefix", anyV, fetchPrefix)

	// certificate-function call and its request
	var certCall *ssa.Call
	for _, ci := range core.AllCalls(G) {
		if core.CalleeName(ci.Common()) == "field:protocol.InterceptingListener.generateServerCertificatesFn" {
			certCall, _ = ci.(*ssa.Call)
		}
	}
	if certCall == nil {
		r.Unk("R-C02.3", gname+" certificate-function call", p.Pos(G.Pos()), "no call through InterceptingListener.generateServerCertificatesFn")
		return
	}
	reqAl := core.Strip(certCall.Call.Args[2])

	fetchBlocks := c02WaiverSites(c, G, "R-C02.2")
	// authentication block: Unmarshal into the certificate request
	var authUnm []*ssa.Call
	for _, u := range callsNamed(G, "google.golang.org/protobuf/proto.Unmarshal") {
		if core.Strip(u.Call.Args[1]) == reqAl {
			authUnm = append(authUnm, u)
		}
	}
	if len(authUnm) == 0 {
		r.Unk("R-C02.4", gname+" remote decode of the certificate request", p.Pos(G.Pos()), "no proto.Unmarshal into the request given to the certificate function")
	}
	for i, u := range authUnm {
		for j, fb := range fetchBlocks {
			fwd := reachFrom(fb, nil)[u.Block()]
			bwd := reachFrom(u.Block(), nil)[fb]
			r.Check(!fwd && !bwd, "R-C02.2", fmt.Sprintf("%s fetch-block#%d vs auth-decode#%d exclusive", gname, j, i), p.Pos(u.Pos()),
				"no path runs through both the fetch branch and the authentication branch", "a path runs through both the fetch branch (waiver appended) and the authentication branch (remote request decoded): the waiver can apply to an authentication handshake")
		}
	}

	// R-C02.4
	isFalseStore := func(in ssa.Instruction) bool {
		st, ok := in.(*ssa.Store)
		if !ok {
			return false
		}
		fa, ok := st.Addr.(*ssa.FieldAddr)
		if !ok || core.Strip(fa.X) != reqAl {
			return false
		}
		if _, f := core.FieldAddrName(fa); f != "SkipVerification" {
			return false
		}
		b, isB := core.ConstBool(st.Val)
		return isB && !b
	}
	for i, u := range authUnm {
		// same-block store after the unmarshal?
		same := false
		after := false
		for _, in := range u.Block().Instrs {
			if in == ssa.Instruction(u) {
				after = true
				continue
			}
			if after && isFalseStore(in) {
				same = true
			}
		}
		okc := same
		if !same {
			avoid := map[*ssa.BasicBlock]bool{}
			for _, b := range G.Blocks {
				for _, in := range b.Instrs {
					if isFalseStore(in) && b != u.Block() {
						avoid[b] = true
					}
				}
			}
			okc = !reachFrom(u.Block(), avoid)[certCall.Block()] || u.Block() == certCall.Block() && false
			if u.Block() == certCall.Block() {
				okc = false
			}
		}
		r.Check(okc, "R-C02.4", fmt.Sprintf("%s auth-decode#%d clears SkipVerification", gname, i), p.Pos(u.Pos()),
			"every path from the remote decode to the certificate function stores false into SkipVerification", "the request decoded from the peer's bytes reaches the certificate function with a peer-controlled SkipVerification flag")
	}
	nTrue := 0
	for _, st := range storesToField(G, "types.GenerateServerCertificatesRequest", "SkipVerification") {
		if b, isB := core.ConstBool(st.Val); isB && !b {
			continue
		}
		nTrue++
		res := core.CutReach(p, G, gFetch, st.Block())
		r.CutOb(p, "R-C02.4", fmt.Sprintf("%s SkipVerification=true store#%d under HasPrefix(p, fetch prefix)", gname, nTrue), p.Pos(st.Pos()), res, gFetch)
	}
	// field classification
	if tn := p.Mod[typesPkg].Types.Scope().Lookup("GenerateServerCertificatesRequest"); tn != nil {
		known := map[string]bool{"NodeId": true, "Nonce": true, "NonceSignature": true, "ClientState": true, "ClientStateSignature": true, "CertificatePublicKeyPkix": true, "CommonName": true, "SkipVerification": true}
		st := structOfType(tn.Type())
		var unknown []string
		for i := 0; st != nil && i < st.NumFields(); i++ {
			f := st.Field(i)
			if f.Exported() && !known[f.Name()] {
				unknown = append(unknown, f.Name())
			}
		}
		sort.Strings(unknown)
		if len(unknown) > 0 {
			r.Unk("R-C02.4", "types.GenerateServerCertificatesRequest field classification", "", "unclassified request fields (remote-controllable?): "+strings.Join(unknown, ","))
		} else {
			r.OK("R-C02.4", "types.GenerateServerCertificatesRequest field classification", "", "all exported fields classified")
		}
	}

	// R-C02.3
	scs := callsNamed(G, mod+"/tls.ServerConfig")
	if len(scs) == 0 {
		r.Unk("R-C02.3", gname+" ServerConfig call", p.Pos(G.Pos()), "no tls.ServerConfig call")
	}
	for i, sc := range scs {
		okc := false
		ap, _ := core.CallResult(core.Strip(sc.Call.Args[2]))
		if ap != nil && core.CalleeName(ap.Common()) == "builtin:append" {
			if elems, ok := sliceLiteralElems(ap.Call.Args[1]); ok {
				for _, e := range elems {
					if oc, _ := core.CallResult(core.Strip(e)); oc != nil && core.CalleeName(oc.Common()) == mod+".WithExpectedPublicKey" {
						kp := core.PathOf(oc.Call.Args[0])
						okc = kp.Root == reqAl && kp.HasFields("CertificatePublicKeyPkix")
					}
				}
			}
		}
		r.Check(okc, "R-C02.3", fmt.Sprintf("%s ServerConfig-call#%d expected key", gname, i), p.Pos(sc.Pos()),
			"options end with WithExpectedPublicKey(request.CertificatePublicKeyPkix)", "the TLS configuration is built without pinning the certificate key of the verified request")
		// config comes from the certificate function's response on its success edge
		gCert := core.ErrNil("generateServerCertificatesFn", func(x *ssa.Call) bool { return x == certCall })
		res := core.CutReach(p, G, gCert, sc.Block())
		r.CutOb(p, "R-C02.3", fmt.Sprintf("%s ServerConfig-call#%d after certificate function success", gname, i), p.Pos(sc.Pos()), res, gCert)
		r.Check(core.Strip(sc.Call.Args[1]) == extractOf(certCall, 0), "R-C02.3", fmt.Sprintf("%s ServerConfig-call#%d input", gname, i), p.Pos(sc.Pos()),
			"configuration built from the certificate function's response", "configuration not built from the certificate function's response")
	}

	// R-C02.7
	var npStores []*ssa.Store
	for _, st := range storesToField(G, "tls.Config", "NextProtos") {
		npStores = append(npStores, st)
	}
	if len(npStores) == 0 {
		r.Unk("R-C02.7", gname+" NextProtos", p.Pos(G.Pos()), "no store to the returned configuration's NextProtos")
	}
	gLib := strPrefixGuard("p, fetch|authenticate prefix", anyV, fetchPrefix, authPrefix)
	for i, st := range npStores {
		elems, ok := sliceLiteralElems(st.Val)
		if !ok || len(elems) != 1 {
			r.Bad("R-C02.7", fmt.Sprintf("%s NextProtos store#%d", gname, i), p.Pos(st.Pos()), "NextProtos is not a one-element literal")
			continue
		}
		// walk the phi web with edges
		seen := map[*ssa.Phi]bool{}
		bad := ""
		nEdges := 0
		var walk func(v ssa.Value, from *ssa.BasicBlock)
		walk = func(v ssa.Value, from *ssa.BasicBlock) {
			switch x := v.(type) {
			case *ssa.Phi:
				if seen[x] {
					return
				}
				seen[x] = true
				for k, e := range x.Edges {
					walk(e, x.Block().Preds[k])
				}
			case *ssa.Const:
				if s, ok := core.ConstString(x); !ok || s != "" {
					bad = "constant protocol name " + x.String()
				}
			default:
				nEdges++
				if from == nil {
					bad = "NextProtos entry is not selected inside the dispatch loop: " + core.ValueName(v)
					return
				}
				// the HasPrefix guards must be on this very value
				gv := strPrefixGuard("p, fetch|authenticate prefix", func(a ssa.Value) bool { return a == v }, fetchPrefix, authPrefix)
				res := core.CutReach(p, G, gv, from)
				if res.Reachable || len(res.Instances) == 0 {
					bad = "a protocol name not tested for the fetch/authenticate prefix can be negotiated (" + core.ValueName(v) + ")"
				}
			}
		}
		walk(elems[0], nil)
		_ = gLib
		r.Check(bad == "" && nEdges > 0, "R-C02.7", fmt.Sprintf("%s NextProtos store#%d provenance", gname, i), p.Pos(st.Pos()),
			fmt.Sprintf("%d non-constant sources, each the loop element under its HasPrefix test", nEdges), bad)
	}
}

func c02Accept(c *Ctx) {
	p, r := c.P, c.R
	acc := c.need("R-C02.5", "protocol", "(*InterceptingListener).Accept")
	if acc == nil {
		return
	}
	name := "protocol.(*InterceptingListener).Accept"
	fetchPrefix := c.rootConst("FetchNodeCredsNextProtoV1Prefix")
	var connRets []*ssa.Return
	for _, ret := range core.Returns(acc) {
		if !core.IsNilConst(ret.Results[0]) {
			connRets = append(connRets, ret)
		}
	}
	if len(connRets) == 0 {
		r.Unk("R-C02.5", name+" connection returns", p.Pos(acc.Pos()), "no return of a non-nil connection")
		return
	}
	servers := callsNamed(acc, "crypto/tls.Server")
	if len(servers) != 1 {
		r.Unk("R-C02.5", name+" tls.Server", p.Pos(acc.Pos()), fmt.Sprintf("%d tls.Server calls, want 1", len(servers)))
		return
	}
	tlsConn := ssa.Value(servers[0])
	gHs := core.ErrNil("tlsConn.HandshakeContext", func(x *ssa.Call) bool {
		return core.CalleeName(x.Common()) == "(*crypto/tls.Conn).HandshakeContext" && core.Strip(x.Call.Args[0]) == tlsConn
	})
	gNotFetch := core.Guard{Name: "Not(HasPrefix(tlsConn.ConnectionState().NegotiatedProtocol, fetch prefix))", Match: func(cond ssa.Value) (int, bool) {
		cc, ok := cond.(*ssa.Call)
		if !ok || core.CalleeName(cc.Common()) != "strings.HasPrefix" {
			return 0, false
		}
		s, isC := core.ConstString(cc.Call.Args[1])
		if !isC || s != fetchPrefix {
			return 0, false
		}
		np := core.PathOf(cc.Call.Args[0])
		if !np.HasFields("NegotiatedProtocol") {
			return 0, false
		}
		// root: load of a local holding ConnectionState() of tlsConn, or the call itself
		ok2 := false
		switch rt := np.Root.(type) {
		case *ssa.Call:
			ok2 = core.CalleeName(rt.Common()) == "(*crypto/tls.Conn).ConnectionState" && core.Strip(rt.Call.Args[0]) == tlsConn
		case *ssa.Alloc:
			if sv := core.SingleStore(rt); sv != nil {
				if sc, isCall := sv.(*ssa.Call); isCall {
					ok2 = core.CalleeName(sc.Common()) == "(*crypto/tls.Conn).ConnectionState" && core.Strip(sc.Call.Args[0]) == tlsConn
				}
			}
		}
		if !ok2 {
			return 0, false
		}
		return 1, true
	}}
	for i, ret := range connRets {
		for _, g := range []core.Guard{gHs, gNotFetch} {
			res := core.CutReach(p, acc, g, ret.Block())
			r.CutOb(p, "R-C02.5", fmt.Sprintf("%s connection-return#%d guard=%s", name, i, g.Name), p.Pos(ret.Pos()), res, g)
		}
		// provenance: NewConn(tlsConn, ...)
		nc, idx := core.CallResult(core.Strip(ret.Results[0]))
		okc := nc != nil && idx == 0 && core.CalleeName(nc.Common()) == mod+"/protocol.NewConn" && core.Strip(nc.Call.Args[0]) == tlsConn
		r.Check(okc, "R-C02.5", fmt.Sprintf("%s connection-return#%d provenance", name, i), p.Pos(ret.Pos()), "returns NewConn(tls.Server(conn, ...))", "the returned connection is not the handshaken TLS server connection")
	}
	// the server config's GetConfigForClient is this listener's closure
	okCfg := false
	if cfgAl, ok := core.Strip(servers[0].Call.Args[1]).(*ssa.Alloc); ok {
		for _, ref := range *cfgAl.Referrers() {
			if fa, ok := ref.(*ssa.FieldAddr); ok {
				if _, f := core.FieldAddrName(fa); f == "GetConfigForClient" {
					for _, r2 := range *fa.Referrers() {
						if st, ok := r2.(*ssa.Store); ok {
							if gc, _ := core.CallResult(core.Strip(st.Val)); gc != nil && isListenerCallbackFactory(c, gc.Common()) {
								okCfg = true
							}
						}
					}
				}
			}
		}
	}
	r.Check(okCfg, "R-C02.5", name+" handshake configuration", p.Pos(servers[0].Pos()), "GetConfigForClient is the listener's own callback", "the handshake does not run the listener's GetConfigForClient callback")
}

// c02WaiverSites checks that the fetch-only verification waiver option
// WithAlpnProtoPrefix(<fetch prefix>) is built only in the listener's
// GetConfigForClient closure, only under HasPrefix(p, <fetch prefix>); shared
// with C07 (the same option switches off the client's verification). Returns
// the blocks of the accepted sites.
func c02WaiverSites(c *Ctx, G *ssa.Function, rule string) []*ssa.BasicBlock {
	p, r := c.P, c.R
	gname := core.FuncName(G)
	fetchPrefix := c.rootConst("FetchNodeCredsNextProtoV1Prefix")
	gFetch := strPrefixGuard("p, fetch prefix", func(ssa.Value) bool { return true }, fetchPrefix)
	// R-C02.2: waiver call sites across the module
	nW := 0
	var fetchBlocks []*ssa.BasicBlock
	for _, fn := range p.ModuleFuncs() {
		for _, wc := range callsNamed(fn, mod+".WithAlpnProtoPrefix") {
			s, isC := core.ConstString(wc.Call.Args[0])
			construct := fmt.Sprintf("WithAlpnProtoPrefix call in %s", core.FuncName(fn))
			if fn != G {
				if !isC || s == fetchPrefix {
					r.Bad(rule, construct, p.Pos(wc.Pos()), "the verification waiver option is built outside the listener's fetch branch")
				}
				continue
			}
			nW++
			if !isC || s != fetchPrefix {
				r.Bad(rule, construct+" argument", p.Pos(wc.Pos()), "waiver option with a non-constant or unexpected prefix")
				continue
			}
			fetchBlocks = append(fetchBlocks, wc.Block())
			res := core.CutReach(p, G, gFetch, wc.Block())
			r.CutOb(p, rule, construct+" under HasPrefix(p, fetch prefix)", p.Pos(wc.Pos()), res, gFetch)
		}
	}
	if nW == 0 {
		r.Unk(rule, gname+" waiver site", p.Pos(G.Pos()), "no WithAlpnProtoPrefix call found in the listener closure")
	}
	return fetchBlocks
}


// isListenerCallbackFactory: the call invokes the listener's GetConfigForClient
// factory (resolved as an anchor, so a renamed factory is still recognised).
func isListenerCallbackFactory(c *Ctx, cc *ssa.CallCommon) bool {
	f := c.P.Func("protocol", "(*InterceptingListener).getTlsConfigForClient")
	if f == nil {
		f, _ = c.P.FuncRenamed("protocol", "(*InterceptingListener).getTlsConfigForClient")
	}
	return f != nil && cc.StaticCallee() == f
}
