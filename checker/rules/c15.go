package rules

import (
	"fmt"
	"sort"
	"strings"

	"nechk/core"

	"golang.org/x/tools/go/ssa"
)

func init() { All["C15"] = c15; All["C16"] = c16 }

// capacityExact reports whether slice value v has cap == len by construction.
func capacityExact(v ssa.Value) (bool, string) {
	v = core.Strip(v)
	switch x := v.(type) {
	case *ssa.MakeSlice:
		if x.Cap == x.Len {
			return true, "make([]T, n) (cap == len)"
		}
		if a, ok := core.ConstInt(x.Len); ok {
			if b, ok := core.ConstInt(x.Cap); ok && a == b {
				return true, "make([]T, n, n)"
			}
		}
		return false, "make with cap != len"
	case *ssa.Slice:
		if x.Max != nil && x.High != nil && x.Max == x.High {
			return true, "three-index slice x[:n:n]"
		}
		if al, ok := x.X.(*ssa.Alloc); ok {
			if _, isArr := al.Type().Underlying().(interface{ Elem() interface{} }); isArr {
				return false, "slice of a local array"
			}
			// make([]T, const) is lowered to new [n]T; slice [:] -> cap == len
			if x.Low == nil && x.High == nil && x.Max == nil {
				return true, "make([]T, const) (full slice of a fresh array)"
			}
		}
		return false, "re-slice without capacity limit"
	case *ssa.Call:
		// a helper that makes the copy: every slice it returns must be capacity-exact
		if vals, _, h := helperResult(x); h != nil && len(vals) > 0 {
			for _, rv := range vals {
				if ok, why := capacityExact(rv); !ok {
					return false, "result of " + core.FuncName(h) + ": " + why
				}
			}
			return true, "capacity-exact copy made by " + core.FuncName(h)
		}
		switch core.CalleeName(x.Common()) {
		case "slices.Clip":
			return true, "slices.Clip"
		}
		return false, "result of " + shortName(core.CalleeName(x.Common()))
	case *ssa.Const:
		if x.Value == nil {
			return true, "nil slice"
		}
	}
	return false, "caller-provided slice (" + core.ValueName(v) + ")"
}

// aliasAppends finds append calls whose first operand may alias the slice
// held in struct field typeName.field: through loads, phis, re-assignments
// and variadic forwarding f(x...) into module functions (depth-bounded).
func aliasAppends(p *core.Prog, typeName, field string) []string {
	var out []string
	seenFn := map[string]bool{}
	var follow func(fn *ssa.Function, seeds []ssa.Value, depth int, via string)
	follow = func(fn *ssa.Function, seeds []ssa.Value, depth int, via string) {
		if depth > 4 {
			return
		}
		alias := map[ssa.Value]bool{}
		var work []ssa.Value
		for _, s := range seeds {
			alias[s] = true
			work = append(work, s)
		}
		for len(work) > 0 {
			v := work[len(work)-1]
			work = work[:len(work)-1]
			refs := v.Referrers()
			if refs == nil {
				continue
			}
			for _, ref := range *refs {
				switch x := ref.(type) {
				case *ssa.Phi:
					if !alias[x] {
						alias[x] = true
						work = append(work, x)
					}
				case *ssa.Slice:
					if x.X == v && !alias[x] && x.Max == nil {
						alias[x] = true
						work = append(work, x)
					}
				case *ssa.Call:
					name := core.CalleeName(x.Common())
					if name == "builtin:append" && x.Call.Args[0] == v {
						out = append(out, fmt.Sprintf("%s (%s%s)", p.Pos(x.Pos()), core.FuncName(fn), via))
						// the result shares the backing array when capacity allows
						if !alias[x] {
							alias[x] = true
							work = append(work, x)
						}
						continue
					}
					// variadic forwarding: the slice itself is the callee's variadic parameter
					targets := []*ssa.Function{}
					if sc := x.Common().StaticCallee(); sc != nil && core.InModule(sc) {
						targets = append(targets, sc)
					}
					if strings.HasPrefix(name, "field:") {
						// listener function fields: default closures
						for _, f := range p.ModuleFuncs() {
							if f.Parent() != nil && strings.HasSuffix(core.FuncName(f.Parent()), "NewInterceptingListener") {
								targets = append(targets, f)
							}
						}
					}
					for ai, a := range x.Common().Args {
						if a != v {
							continue
						}
						for _, t := range targets {
							pi := ai
							if x.Common().IsInvoke() {
								pi++
							}
							if pi < len(t.Params) && t.Signature.Variadic() && pi == len(t.Params)-1 {
								key := core.FuncName(t) + "#" + fmt.Sprint(pi)
								if !seenFn[key] {
									seenFn[key] = true
									follow(t, []ssa.Value{t.Params[pi]}, depth+1, via+" <- "+core.FuncName(fn))
								}
							}
						}
					}
				}
			}
		}
	}
	for _, fn := range p.ModuleFuncs() {
		var seeds []ssa.Value
		for _, b := range fn.Blocks {
			for _, in := range b.Instrs {
				if w, ok := core.IsFieldAccess(in, typeName, field); ok && !w {
					seeds = append(seeds, in.(ssa.Value))
				}
			}
		}
		if len(seeds) > 0 {
			follow(fn, seeds, 0, "")
		}
	}
	sort.Strings(out)
	return out
}

func c15(c *Ctx) {
	lockPairing(c, "R-C15.6")
	p, r := c.P, c.R
	r.Rule("R-C15.1", "the listener's option slice is shared by all handshakes: either every store to InterceptingListener.options is capacity-exact (make+copy, x[:n:n], slices.Clip), or no append is reachable on a value that may alias it (loads, phis, re-slices, variadic forwarding into the fetch path)")
	r.Rule("R-C15.2", "no field of InterceptingListener, and nothing reached through such a field (l.baseTlsConf.X, ...), is written outside NewInterceptingListener")
	r.Rule("R-C15.3", "the ClientInfo handed to the TLS callback is allocated inside the accept loop body (one per connection) and is used only by that iteration's callback and NewConn")
	r.Rule("R-C15.4", "no package-level variable of protocol, tls, registration, types or the root package is written outside init (generated *.pb.go excluded: sync.Once-guarded protobuf runtime state)")
	r.Rule("R-C15.5", "objects the application handed over in options (the listener passes one option list to every handshake) are never written: in the hand-written packages no store or map update, directly or in a helper (depth <= 2, parameters bound to arguments), has a target reached through a field of a parsed Options value (opts.WithState.Fields[k] = v, *opts.WithX = ...)")
	r.NotDecided = append(r.NotDecided, "races inside the application's Storage", "fairness", "that outcomes equal a sequential run (needs execution)")
	c15OptionObjects(c)

	// R-C15.1
	var stores []*ssa.Store
	for _, fn := range p.ModuleFuncs() {
		stores = append(stores, storesToField(fn, "protocol.InterceptingListener", "options")...)
	}
	if len(stores) == 0 {
		r.Unk("R-C15.1", "stores to InterceptingListener.options", "", "none found")
	}
	appends := aliasAppends(p, "protocol.InterceptingListener", "options")
	allExact := true
	for i, st := range stores {
		ok, why := capacityExact(st.Val)
		if !ok {
			allExact = false
		}
		construct := fmt.Sprintf("store#%d to InterceptingListener.options in %s", i, core.FuncName(st.Parent()))
		if ok {
			r.OK("R-C15.1", construct, p.Pos(st.Pos()), "capacity-exact: "+why+"; every append on an alias reallocates")
		} else if len(appends) == 0 {
			r.OK("R-C15.1", construct, p.Pos(st.Pos()), "not capacity-exact ("+why+") but no append reaches an alias")
		} else {
			r.Bad("R-C15.1", construct, p.Pos(st.Pos()), fmt.Sprintf("the stored slice is %s and %d append sites write through aliases of it: concurrent handshakes write their per-connection options (including the fetch-only verification waiver) into shared backing storage", why, len(appends)), appends...)
		}
	}
	r.Notes = append(r.Notes, fmt.Sprintf("R-C15.1: %d append sites on aliases of InterceptingListener.options: %s (all stores capacity-exact: %v)", len(appends), strings.Join(appends, "; "), allExact))
	if len(appends) == 0 {
		r.Unk("R-C15.1", "append sites on option-slice aliases", "", "alias analysis found no append although the TLS callback appends per-connection options: analysis is broken")
	}

	// R-C15.2
	n := 0
	for _, fn := range p.ModuleFuncs() {
		for _, b := range fn.Blocks {
			for _, in := range b.Instrs {
				st, ok := in.(*ssa.Store)
				if !ok {
					continue
				}
				// an object the listener owns (l.baseTlsConf.NextProtos = ..., l.x.y[k] = ...):
				// the target is reached through a field of a listener value
				if tp := core.PathOf(st.Addr); len(tp.Fields) >= 2 && namedType(tp.Root.Type(), mod+"/protocol", "InterceptingListener") && core.FuncName(fn) != "protocol.NewInterceptingListener" {
					r.Bad("R-C15.2", "store through InterceptingListener."+strings.Join(tp.Fields, ".")+" in "+core.FuncName(fn), p.Pos(st.Pos()), "an object owned by the listener is written after construction: it is shared by all concurrent handshakes (race; one connection's value is used for another)")
				}
				fa, ok := st.Addr.(*ssa.FieldAddr)
				if !ok {
					continue
				}
				if tn, f := core.FieldAddrName(fa); tn == "protocol.InterceptingListener" {
					n++
					nm := core.FuncName(fn)
					if nm != "protocol.NewInterceptingListener" {
						r.Bad("R-C15.2", "store to InterceptingListener."+f+" in "+nm, p.Pos(st.Pos()), "listener state is written after construction: shared between concurrent handshakes")
					}
				}
			}
		}
	}
	if n == 0 {
		r.Unk("R-C15.2", "stores to InterceptingListener fields", "", "none found (the constructor is expected)")
	} else {
		r.OK("R-C15.2", "stores to InterceptingListener fields", "", fmt.Sprintf("%d stores, all inside the constructor", n))
	}

	// R-C15.3
	acc := c.need("R-C15.3", "protocol", "(*InterceptingListener).Accept")
	if acc != nil {
		var ci *ssa.Alloc
		for _, b := range acc.Blocks {
			for _, in := range b.Instrs {
				if al, ok := in.(*ssa.Alloc); ok && namedType(al.Type(), mod+"/protocol", "ClientInfo") {
					ci = al
				}
			}
		}
		servers := callsNamed(acc, "crypto/tls.Server")
		if ci == nil || len(servers) != 1 {
			r.Unk("R-C15.3", "protocol.Accept ClientInfo", p.Pos(acc.Pos()), "no ClientInfo allocation / tls.Server call")
		} else {
			// per connection: allocated after (dominated by) the successful base accept of this iteration
			inLoop := false
			for _, bc := range core.AllCalls(acc) {
				if bc.Common().IsInvoke() && bc.Common().Method.Name() == "Accept" {
					if call, ok := bc.(*ssa.Call); ok {
						if okT, succ, _, _ := errTestEdges(call); okT && succ.Dominates(ci.Block()) {
							inLoop = true
						}
					}
				}
			}
			r.Check(inLoop && ci.Heap, "R-C15.3", "protocol.Accept ClientInfo allocated per connection", p.Pos(ci.Pos()), "fresh allocation in the accept loop body", "the ClientInfo is allocated outside the accept loop: concurrent or successive handshakes share their reported protocols and client state")
			okUse := true
			var bad []string
			for _, ref := range *ci.Referrers() {
				switch x := ref.(type) {
				case *ssa.FieldAddr, *ssa.DebugRef:
				case *ssa.Call:
					if !isListenerCallbackFactory(c, x.Common()) {
						okUse = false
						bad = append(bad, core.CalleeName(x.Common()))
					}
				case *ssa.Store:
					if x.Val == ssa.Value(ci) {
						okUse = false
						bad = append(bad, "stored")
					}
				default:
					okUse = false
					bad = append(bad, fmt.Sprintf("%T", ref))
				}
			}
			r.Check(okUse, "R-C15.3", "protocol.Accept ClientInfo escapes only to its callback", p.Pos(ci.Pos()), "used only by this iteration's callback and NewConn", "the per-connection ClientInfo escapes: "+strings.Join(bad, ","))
		}
	}

	// R-C15.4
	pkgs := map[string]bool{mod: true, mod + "/protocol": true, mod + "/tls": true, mod + "/registration": true, mod + "/types": true, mod + "/rotation": true}
	nG := 0
	for _, fn := range p.ModuleFuncs() {
		pk := fn.Package()
		if pk == nil && fn.Parent() != nil {
			pk = fn.Parent().Package()
		}
		if pk == nil || !pkgs[pk.Pkg.Path()] || isGenerated(p, fn) || fn.Name() == "init" || strings.HasPrefix(fn.Name(), "init#") {
			continue
		}
		for _, b := range fn.Blocks {
			for _, in := range b.Instrs {
				if st, ok := in.(*ssa.Store); ok {
					if g, ok := st.Addr.(*ssa.Global); ok {
						nG++
						r.Bad("R-C15.4", "write to package variable "+g.Name()+" in "+core.FuncName(fn), p.Pos(st.Pos()), "package-level mutable state is shared by all listeners and handshakes")
					}
				}
			}
		}
	}
	if nG == 0 {
		r.OK("R-C15.4", "writes to package-level variables", "", "none outside init in the handshake packages")
	}
}

func c16(c *Ctx) {
	p, r := c.P, c.R
	r.Rule("R-C16.1", "the value stored to clientInfo.nextProtos is built from a zero-length slice by appending, in one range over hello.SupportedProtos, the loop element itself; the only test between the loop head and the append is HasPrefix(elem, certificate-preference prefix)")
	r.Rule("R-C16.2", "clientInfo.clientState is assigned from the certificate function's response on its success edge; that response field is set behind C05's gate (evaluated here)")
	r.Rule("R-C16.5", "the option that carries the list from Accept to NewConn is lossless: the closure of nodeenrollment.WithExtraAlpnProtos stores its argument itself, or an exact copy (make of the same length filled by copy, slices.Clone, append to nil), into Options.WithExtraAlpnProtos - no filtering, de-duplication or reordering")
	r.Rule("R-C16.6", "the captured list is not modified in place on its way to the connection: no value aliasing ClientInfo.nextProtos, Conn.clientNextProtos or the ClientHello's SupportedProtos is handed to an in-place mutator (sort.*, slices.Sort*/Reverse/Compact*/Delete/Insert/Replace, copy as destination) or written by index, anywhere in package protocol")
	r.Rule("R-C16.3", "Accept passes exactly the current connection's clientInfo.nextProtos and clientInfo.clientState to NewConn")
	r.Rule("R-C16.4", "ClientNextProtos returns nil, an empty literal or a fresh make filled by copy; NewConn stores a fresh copy; neither aliases the caller's or the connection's slice")
	r.NotDecided = append(r.NotDecided, "equality for every state structure (proto marshal/unmarshal round trip)", "large values")

	_, G := listenerClosure(c, "R-C16.1")
	if G == nil {
		return
	}
	gname := core.FuncName(G)
	hello := ssa.Value(G.Params[0])
	certPref := c.rootConst("CertificatePreferenceV1Prefix")
	sts := storesToField(G, "protocol.ClientInfo", "nextProtos")
	if len(sts) == 0 {
		r.Unk("R-C16.1", gname+" nextProtos store", p.Pos(G.Pos()), "clientInfo.nextProtos is never assigned")
	}
	isElem := func(v ssa.Value) bool {
		sp, ok := elemOf(core.Strip(v))
		return ok && sp.Root == hello && sp.HasFields("SupportedProtos")
	}
	for i, st := range sts {
		construct := fmt.Sprintf("%s nextProtos store#%d", gname, i)
		var bad []string
		nApp := 0
		seen := map[ssa.Value]bool{}
		var walk func(v ssa.Value)
		walk = func(v ssa.Value) {
			v = core.Strip(v)
			if seen[v] {
				return
			}
			seen[v] = true
			switch x := v.(type) {
			case *ssa.Phi:
				for _, e := range x.Edges {
					walk(e)
				}
			case *ssa.Const:
				if x.Value != nil {
					bad = append(bad, "constant")
				}
			case *ssa.MakeSlice:
				if k, ok := core.ConstInt(x.Len); !ok || k != 0 {
					bad = append(bad, "starts from make([]string, n) with non-zero length: the list begins with n empty strings")
				}
			case *ssa.Slice:
				// make([]string, const) lowered to an array slice
				if al, ok := x.X.(*ssa.Alloc); ok {
					hi, hok := core.ConstInt(x.High)
					if !(x.High != nil && hok && hi == 0) {
						bad = append(bad, "starts from a non-empty literal/array ("+al.Type().String()+")")
					}
				} else {
					bad = append(bad, "re-sliced value")
				}
			case *ssa.Call:
				if core.CalleeName(x.Common()) != "builtin:append" {
					// a helper that builds the list: its parameters stand for the arguments
					if vals, subst, h := helperResult(x); h != nil && len(vals) > 0 {
						r.Fn(core.FuncName(h))
						core.WithSubst(subst, func() {
							for _, rv := range vals {
								walk(rv)
							}
						})
						return
					}
					bad = append(bad, "value from "+shortName(core.CalleeName(x.Common())))
					return
				}
				nApp++
				elems, ok := sliceLiteralElems(x.Call.Args[1])
				if !ok || len(elems) != 1 || !isElem(elems[0]) {
					bad = append(bad, "appends something other than the loop element of hello.SupportedProtos at "+p.Pos(x.Pos()))
				} else {
					// only the certificate-preference test inside the iteration
					scc := sccOf(x.Block())
					if scc == nil {
						bad = append(bad, "append is not inside the range loop")
					} else {
						for b := range scc {
							ifi, isIf := b.Instrs[len(b.Instrs)-1].(*ssa.If)
							if !isIf {
								continue
							}
							if cc, isCall := ifi.Cond.(*ssa.Call); isCall && core.CalleeName(cc.Common()) == "strings.HasPrefix" {
								s, _ := core.ConstString(cc.Call.Args[1])
								if s == certPref && core.Strip(cc.Call.Args[0]) == core.Strip(elems[0]) {
									// the append must be on the false edge
									if reachFrom(b.Succs[0], map[*ssa.BasicBlock]bool{loopHeader(scc): true})[x.Block()] {
										bad = append(bad, "certificate-preference entries are appended too")
									}
									continue
								}
								bad = append(bad, "entries are filtered by another prefix test ("+s+")")
								continue
							}
							if bo, isBo := ifi.Cond.(*ssa.BinOp); isBo {
								if _, isLen := bo.Y.(*ssa.Call); isLen {
									continue // range bound
								}
							}
							bad = append(bad, "extra condition inside the copy loop at "+p.Pos(firstPos(b)))
						}
					}
				}
				walk(x.Call.Args[0])
			default:
				bad = append(bad, "unrecognised source "+core.ValueName(v))
			}
		}
		walk(st.Val)
		sort.Strings(bad)
		r.Check(len(bad) == 0 && nApp == 1, "R-C16.1", construct, p.Pos(st.Pos()), "zero-length start, one append of the loop element, only the certificate-preference filter", strings.Join(bad, "; ")+fmt.Sprintf(" (appends=%d)", nApp))
	}

	// R-C16.2
	var certCall *ssa.Call
	for _, ci := range core.AllCalls(G) {
		if core.CalleeName(ci.Common()) == "field:protocol.InterceptingListener.generateServerCertificatesFn" {
			certCall, _ = ci.(*ssa.Call)
		}
	}
	css := storesToField(G, "protocol.ClientInfo", "clientState")
	if certCall == nil || len(css) == 0 {
		r.Unk("R-C16.2", gname+" clientState store", p.Pos(G.Pos()), "certificate function call or clientState assignment not found")
	} else {
		gCert := core.ErrNil("generateServerCertificatesFn", func(x *ssa.Call) bool { return x == certCall })
		for i, st := range css {
			vp := core.PathOf(st.Val)
			r.Check(vp.Root == extractOf(certCall, 0) && vp.HasFields("ClientState"), "R-C16.2", fmt.Sprintf("%s clientState store#%d source", gname, i), p.Pos(st.Pos()), "the certificate function's verified response", "client state does not come from the certificate function's response (e.g. taken from the unverified request)")
			res := core.CutReach(p, G, gCert, st.Block())
			r.CutOb(p, "R-C16.2", fmt.Sprintf("%s clientState store#%d after success", gname, i), p.Pos(st.Pos()), res, gCert)
		}
	}
	c05(c)

	// R-C16.5
	if of := c.need("R-C16.5", "", "WithExtraAlpnProtos"); of != nil {
		n := 0
		for _, cl := range of.AnonFuncs {
			for i, st := range storesToField(cl, "nodeenrollment.Options", "WithExtraAlpnProtos") {
				n++
				arg := freeVar(cl, of.Params[0].Name())
				v := core.Strip(st.Val)
				ok, why := false, core.ValueName(v)
				isArg := func(x ssa.Value) bool {
					x = core.Strip(x)
					if arg != nil && x == arg {
						return true
					}
					pp := core.PathOf(x)
					return arg != nil && pp.Root == arg && len(pp.Fields) == 0
				}
				switch x := v.(type) {
				case *ssa.Const:
					// "if with == nil { o.X = nil }" keeps nil as nil
					ok, why = x.Value == nil, "nil"
				case *ssa.MakeSlice:
					// make([]string, len(arg)) + copy(dst, arg)
					lenOK := false
					if lc, isCall := x.Len.(*ssa.Call); isCall && core.CalleeName(lc.Common()) == "builtin:len" && isArg(lc.Call.Args[0]) {
						lenOK = true
					}
					copied := false
					for _, cc := range callsNamed(cl, "builtin:copy") {
						if core.Strip(cc.Call.Args[0]) == ssa.Value(x) && isArg(cc.Call.Args[1]) {
							copied = true
						}
					}
					ok, why = lenOK && copied, "make(len(arg)) + copy"
				case *ssa.Call:
					switch core.CalleeName(x.Common()) {
					case "slices.Clone":
						ok, why = isArg(x.Call.Args[0]), "slices.Clone(arg)"
					case "builtin:append":
						ok, why = core.IsNilConst(core.Strip(x.Call.Args[0])) && isArg(x.Call.Args[1]), "append(nil, arg...)"
					}
				default:
					ok, why = isArg(v), "the argument itself"
				}
				r.Check(ok, "R-C16.5", fmt.Sprintf("nodeenrollment.WithExtraAlpnProtos store#%d", i), p.Pos(st.Pos()), why,
					"the option does not carry its argument unchanged ("+why+"): the protocol list reported for a connection is no longer the list the client offered")
			}
		}
		if n == 0 {
			r.Unk("R-C16.5", "nodeenrollment.WithExtraAlpnProtos store", p.Pos(of.Pos()), "the option closure does not assign Options.WithExtraAlpnProtos")
		}
	}

	// R-C16.6
	{
		isList := func(v ssa.Value) (string, bool) {
			pp := core.PathOf(v)
			last := strings.TrimPrefix(pp.Last(), "&")
			switch last {
			case "nextProtos", "clientNextProtos", "SupportedProtos":
				return last, true
			}
			// a re-slice of such a list
			if sl, ok := core.Strip(v).(*ssa.Slice); ok {
				pp = core.PathOf(sl.X)
				last = strings.TrimPrefix(pp.Last(), "&")
				switch last {
				case "nextProtos", "clientNextProtos", "SupportedProtos":
					return last, true
				}
			}
			return "", false
		}
		mutators := map[string]int{"sort.Strings": 0, "sort.Slice": 0, "sort.SliceStable": 0, "sort.Sort": 0, "sort.Stable": 0, "slices.Sort": 0, "slices.SortFunc": 0, "slices.SortStableFunc": 0,
			"slices.Reverse": 0, "slices.Compact": 0, "slices.CompactFunc": 0, "slices.Delete": 0, "slices.DeleteFunc": 0, "slices.Insert": 0, "slices.Replace": 0, "builtin:copy": 0}
		nBad, nFn := 0, 0
		for _, fn := range p.ModuleFuncs() {
			pk := fn.Package()
			for f := fn; pk == nil && f.Parent() != nil; f = f.Parent() {
				pk = f.Parent().Package()
			}
			if pk == nil || pk.Pkg.Path() != mod+"/protocol" || fn.Blocks == nil {
				continue
			}
			nFn++
			for _, b := range fn.Blocks {
				for _, in := range b.Instrs {
					switch x := in.(type) {
					case *ssa.Call:
						nm := core.CalleeName(x.Common())
						if gi := strings.Index(nm, "["); gi > 0 {
							nm = nm[:gi] // generic instantiation
						}
						ai, isMut := mutators[nm]
						if !isMut || ai >= len(x.Call.Args) {
							continue
						}
						arg := x.Call.Args[ai]
						// sort.Sort(sort.StringSlice(x)): look through the conversion
						if ct, ok := core.Strip(arg).(*ssa.ChangeType); ok {
							arg = ct.X
						}
						if mi, ok := core.Strip(arg).(*ssa.MakeInterface); ok {
							arg = mi.X
							if ct, ok := core.Strip(arg).(*ssa.ChangeType); ok {
								arg = ct.X
							}
						}
						if which, ok := isList(arg); ok {
							if nm == "builtin:copy" {
								// filling the fresh slice this function has just made for the field is initialisation
								fresh := false
								for _, b2 := range fn.Blocks {
									for _, in2 := range b2.Instrs {
										if st, isSt := in2.(*ssa.Store); isSt {
											if _, isMk := core.Strip(st.Val).(*ssa.MakeSlice); isMk && strings.TrimPrefix(core.PathOf(st.Addr).Last(), "&") == which {
												fresh = true
											}
										}
									}
								}
								if fresh {
									continue
								}
							}
							nBad++
							r.Bad("R-C16.6", core.FuncName(fn)+" "+shortName(nm)+"("+which+")", p.Pos(x.Pos()), "the list the client offered is reordered / modified in place before it is reported (the slice is shared with the value handed to NewConn)")
						}
					case *ssa.Store:
						if ia, ok := x.Addr.(*ssa.IndexAddr); ok {
							if which, ok := isList(ia.X); ok {
								nBad++
								r.Bad("R-C16.6", core.FuncName(fn)+" element store into "+which, p.Pos(x.Pos()), "an element of the captured protocol list is overwritten")
							}
						}
					}
				}
			}
		}
		if nBad == 0 {
			r.OK("R-C16.6", "in-place modification of the captured protocol lists", "", fmt.Sprintf("none in %d functions of package protocol", nFn))
		}
	}

	// R-C16.3
	acc := c.need("R-C16.3", "protocol", "(*InterceptingListener).Accept")
	if acc != nil {
		var ci *ssa.Alloc
		for _, b := range acc.Blocks {
			for _, in := range b.Instrs {
				if al, ok := in.(*ssa.Alloc); ok && namedType(al.Type(), mod+"/protocol", "ClientInfo") {
					ci = al
				}
			}
		}
		if ci == nil {
			r.Bad("R-C16.3", "protocol.Accept per-connection ClientInfo", p.Pos(acc.Pos()), "Accept has no ClientInfo of its own: the metadata handed to NewConn is not this connection's")
		}
		for i, nc := range callsNamed(acc, mod+"/protocol.NewConn") {
			if ci == nil {
				break
			}
			elems, _ := sliceLiteralElems(nc.Call.Args[1])
			got := map[string]bool{}
			for _, e := range elems {
				oc, _ := core.CallResult(core.Strip(e))
				if oc == nil {
					continue
				}
				ap := core.PathOf(oc.Call.Args[0])
				if ap.Root == ssa.Value(ci) {
					got[shortName(core.CalleeName(oc.Common()))+"("+ap.Last()+")"] = true
				}
			}
			r.Check(got["nodeenrollment.WithExtraAlpnProtos(nextProtos)"] && got["nodeenrollment.WithState(clientState)"], "R-C16.3", fmt.Sprintf("protocol.Accept NewConn#%d metadata", i), p.Pos(nc.Pos()),
				"WithExtraAlpnProtos(clientInfo.nextProtos), WithState(clientInfo.clientState)", fmt.Sprintf("connection metadata is not this connection's ClientInfo: %v", got))
			// same clientInfo as given to the callback of this tls.Server
			okSame := false
			for _, ref := range *ci.Referrers() {
				if cc, ok := ref.(*ssa.Call); ok && isListenerCallbackFactory(c, cc.Common()) {
					okSame = true
				}
			}
			r.Check(okSame, "R-C16.3", fmt.Sprintf("protocol.Accept NewConn#%d same ClientInfo as the callback", i), p.Pos(nc.Pos()), "the ClientInfo filled by this handshake's callback", "NewConn reads a ClientInfo that the handshake callback does not fill")
		}
	}

	// R-C16.4
	if fn := c.need("R-C16.4", "protocol", "(*Conn).ClientNextProtos"); fn != nil {
		recv := ssa.Value(fn.Params[0])
		var fresh func(v ssa.Value, in *ssa.Function, depth int) (bool, string)
		fresh = func(v ssa.Value, in *ssa.Function, depth int) (bool, string) {
			v = core.Strip(v)
			switch x := v.(type) {
			case *ssa.Const:
				return x.Value == nil, "nil"
			case *ssa.MakeSlice:
				return copiedFrom(in, x, recv, "clientNextProtos"), "fresh make filled by copy"
			case *ssa.Slice:
				if _, isAl := x.X.(*ssa.Alloc); isAl {
					return true, "fresh (empty) literal"
				}
			case *ssa.Call:
				// a helper that makes the copy: every value it returns is fresh
				if h := core.ModuleCallee(x.Common()); h != nil && depth < core.MaxSummaryDepth && h.Signature.Results().Len() == 1 {
					all, why := true, "fresh copy made by "+core.FuncName(h)
					core.WithSubst(core.FrameSubst(x.Common(), h), func() {
						for _, hr := range core.Returns(h) {
							if ok, w := fresh(core.ReturnOperand(hr, 0), h, depth+1); !ok {
								all, why = false, w
							}
						}
					})
					return all, why
				}
			}
			return false, core.ValueName(v)
		}
		for i, ret := range core.Returns(fn) {
			ok, why := fresh(ret.Results[0], fn, 0)
			r.Check(ok, "R-C16.4", fmt.Sprintf("(*protocol.Conn).ClientNextProtos return#%d", i), p.Pos(ret.Pos()), why, "returns a slice that aliases the connection's internal list ("+why+")")
		}
	}
	if fn := c.need("R-C16.4", "protocol", "NewConn"); fn != nil {
		for i, st := range storesToField(fn, "protocol.Conn", "clientNextProtos") {
			var freshIn func(v ssa.Value, in *ssa.Function, depth int) bool
			freshIn = func(v ssa.Value, in *ssa.Function, depth int) bool {
				switch x := core.Strip(v).(type) {
				case *ssa.Const:
					return x.Value == nil
				case *ssa.MakeSlice:
					k, isK := core.ConstInt(x.Len)
					return (isK && k == 0) || copiedFromPath(in, x, "WithExtraAlpnProtos") || (in == fn && copiedIntoField(fn, st, "WithExtraAlpnProtos"))
				case *ssa.Slice:
					_, ok := x.X.(*ssa.Alloc)
					return ok
				case *ssa.Call:
					if h := core.ModuleCallee(x.Common()); h != nil && depth < core.MaxSummaryDepth && h.Signature.Results().Len() == 1 {
						all := true
						core.WithSubst(core.FrameSubst(x.Common(), h), func() {
							for _, hr := range core.Returns(h) {
								if !freshIn(core.ReturnOperand(hr, 0), h, depth+1) {
									all = false
								}
							}
						})
						return all
					}
				}
				return false
			}
			ok := false
			if _, isConst := core.Strip(st.Val).(*ssa.Const); !isConst {
				ok = freshIn(st.Val, fn, 0)
			}
			r.Check(ok, "R-C16.4", fmt.Sprintf("protocol.NewConn clientNextProtos store#%d", i), p.Pos(st.Pos()), "fresh copy", "the connection keeps the caller's slice (a later modification by the listener or application changes the connection's metadata)")
		}
	}
}

// copiedFrom: exists copy(dst, recv.field) in fn.
func copiedFrom(fn *ssa.Function, dst ssa.Value, recv ssa.Value, field string) bool {
	for _, cc := range callsNamed(fn, "builtin:copy") {
		sp := core.PathOf(cc.Call.Args[1])
		if core.Strip(cc.Call.Args[0]) == dst && sp.Root == recv && sp.HasFields(field) {
			return true
		}
	}
	return false
}

func copiedFromPath(fn *ssa.Function, dst ssa.Value, lastField string) bool {
	for _, cc := range callsNamed(fn, "builtin:copy") {
		if core.Strip(cc.Call.Args[0]) == dst && core.PathOf(cc.Call.Args[1]).Last() == lastField {
			return true
		}
	}
	return false
}

// copiedIntoField: copy(<load of the field st writes>, <..lastField>) exists.
func copiedIntoField(fn *ssa.Function, st *ssa.Store, lastField string) bool {
	root, field := addrFields(st.Addr)
	for _, cc := range callsNamed(fn, "builtin:copy") {
		dp := core.PathOf(cc.Call.Args[0])
		if dp.Root == root && strings.Join(dp.Fields, ".") == field && core.PathOf(cc.Call.Args[1]).Last() == lastField {
			return true
		}
	}
	return false
}


// c15OptionObjects: R-C15.5.
func c15OptionObjects(c *Ctx) {
	p, r := c.P, c.R
	nFn, nBad := 0, 0
	for _, fn := range p.ModuleFuncs() {
		if fn.Blocks == nil || isGenerated(p, fn) {
			continue
		}
		// parsed options of this function
		isOpts := map[ssa.Value]bool{}
		for _, cc := range callsNamed(fn, mod+".GetOpts") {
			isOpts[extractOf(cc, 0)] = true
		}
		if len(isOpts) == 0 {
			continue
		}
		nFn++
		sites := core.DeepFind(fn, core.MaxSummaryDepth, func(in ssa.Instruction) bool {
			switch in.(type) {
			case *ssa.Store, *ssa.MapUpdate:
				return true
			}
			return false
		})
		for _, site := range sites {
			site.In(func() {
				var target core.Path
				what := ""
				switch x := site.Instr.(type) {
				case *ssa.Store:
					target, what = core.PathOf(x.Addr), "store"
					// a store into the Options struct itself (opts.WithX = v) changes this call's copy only
					if len(target.Fields) < 2 {
						return
					}
				case *ssa.MapUpdate:
					target, what = core.PathOf(x.Map), "map update"
					if len(target.Fields) < 1 {
						return
					}
				}
				if !isOpts[target.Root] {
					return
				}
				nBad++
				r.Bad("R-C15.5", fmt.Sprintf("%s %s through opts.%s", core.FuncName(fn), what, strings.Join(target.Fields, ".")), p.Pos(site.Instr.Pos()),
					"an object the application passed in an option is modified ("+what+" in "+core.FuncName(site.Fn)+"): the listener hands the same option values to every handshake, so one connection's data leaks into others and the write races")
			})
		}
	}
	if nFn == 0 {
		r.Unk("R-C15.5", "functions parsing options", "", "no GetOpts call found in the module")
	} else if nBad == 0 {
		r.OK("R-C15.5", "writes through option values", "", fmt.Sprintf("none in %d option-parsing functions and their helpers", nFn))
	}
}
