package rules

import (
	"fmt"

	"nechk/core"

	"golang.org/x/tools/go/ssa"
)

func init() { All["C05"] = c05 }

// verifierOf finds the function GenerateServerCertificates uses to verify a
// request against a node record: the module callee taking (*NodeInformation,
// *GenerateServerCertificatesRequest) and returning error.
func verifierOf(gsc *ssa.Function) *ssa.Function {
	var cands []*ssa.Function
	for _, f := range core.DeepFuncs(gsc, core.MaxSummaryDepth) {
		cands = append(cands, calleesInModule(f)...)
	}
	for _, cal := range cands {
		if paramOfType(cal, typesPkg, "NodeInformation") != nil &&
			paramOfType(cal, typesPkg, "GenerateServerCertificatesRequest") != nil &&
			core.ErrorResultIndex(cal.Signature) == 0 && cal.Signature.Results().Len() == 1 {
			return cal
		}
	}
	return nil
}

// c05Gate builds the guard "request verified against an approved record, or
// the local caller set SkipVerification", and reports record-provenance
// obligations for each verify call. Shared with C02 and C16.
func c05Gate(c *Ctx, rule string, gsc *ssa.Function) (core.Guard, *ssa.Function, []*ssa.Call, bool) {
	p, r := c.P, c.R
	req := paramOfType(gsc, typesPkg, "GenerateServerCertificatesRequest")
	verify := verifierOf(gsc)
	if req == nil || verify == nil {
		r.Unk(rule, "tls.GenerateServerCertificates verifier", p.Pos(gsc.Pos()),
			"cannot find request parameter or the verification helper (NodeInformation, GenerateServerCertificatesRequest) error")
		return core.Guard{}, nil, nil, false
	}
	r.Fn(core.FuncName(verify))
	sites := core.DeepFind(gsc, core.MaxSummaryDepth, func(in ssa.Instruction) bool {
		c, ok := in.(*ssa.Call)
		return ok && c.Common().StaticCallee() == verify
	})
	var vcalls []*ssa.Call
	approved := map[*ssa.Call]bool{}
	for i, site := range sites {
		vc := site.Instr.(*ssa.Call)
		vcalls = append(vcalls, vc)
		r.Fn(core.FuncName(site.Fn))
		construct := fmt.Sprintf("tls.GenerateServerCertificates verify-call#%d record-provenance", i)
		site.In(func() {
			rec, rq := vc.Call.Args[0], vc.Call.Args[1]
			okReq := core.Strip(rq) == req
			src, okRec := c05RecordSource(rec, req)
			if okReq && okRec {
				approved[vc] = true
				r.OK(rule+"/record", construct, p.Pos(vc.Pos()), "verified record comes from "+src+" and the verified request is the function's request parameter")
			} else {
				r.Bad(rule+"/record", construct, p.Pos(vc.Pos()),
					fmt.Sprintf("verification is not against a record loaded from storage for this request (record source ok=%v: %s; request is parameter=%v)", okRec, src, okReq))
			}
		})
	}
	if len(vcalls) == 0 {
		r.Unk(rule, "tls.GenerateServerCertificates verify-calls", p.Pos(gsc.Pos()), "no call to the verification helper found")
		return core.Guard{}, nil, nil, false
	}
	gate := core.AnyOf("SkipVerification(local) or ErrNil(verify(record, req))",
		core.FlagSet("req.SkipVerification", core.FieldOf(req, "SkipVerification")),
		core.ErrNil("verify", func(x *ssa.Call) bool { return approved[x] }))
	return gate, verify, vcalls, true
}

// c05RecordSource accepts: result #0 of LoadNodeInformation(KeyIdFromPkix(
// req.CertificatePublicKeyPkix)), or an element of
// LoadNodeInformationSetByNodeId(req.NodeId).Nodes.
func c05RecordSource(rec ssa.Value, req ssa.Value) (string, bool) {
	rec = core.Strip(rec)
	if call, idx := core.CallResult(rec); call != nil && idx == 0 {
		if core.CalleeName(call.Common()) == typesPkg+".LoadNodeInformation" && len(call.Call.Args) >= 3 {
			idc, i := core.CallResult(call.Call.Args[2])
			if idc != nil && i == 0 && core.CalleeName(idc.Common()) == mod+".KeyIdFromPkix" {
				ap := core.PathOf(idc.Call.Args[0])
				if ap.Root == req && ap.HasFields("CertificatePublicKeyPkix") {
					return "LoadNodeInformation(KeyIdFromPkix(req.CertificatePublicKeyPkix))", true
				}
				return "LoadNodeInformation(KeyIdFromPkix(" + ap.String() + "))", false
			}
			return "LoadNodeInformation(<id not derived from the request key>)", false
		}
		return "call " + core.CalleeName(call.Common()), false
	}
	if sp, ok := elemOf(rec); ok && sp.HasFields("Nodes") {
		call, idx := core.CallResult(sp.Root)
		if call != nil && idx == 0 && core.CalleeName(call.Common()) == typesPkg+".LoadNodeInformationSetByNodeId" && len(call.Call.Args) >= 3 {
			ap := core.PathOf(call.Call.Args[2])
			if ap.Root == req && ap.HasFields("NodeId") {
				return "element of LoadNodeInformationSetByNodeId(req.NodeId).Nodes", true
			}
			return "element of LoadNodeInformationSetByNodeId(" + ap.String() + ").Nodes", false
		}
	}
	return core.ValueName(rec), false
}

func c05(c *Ctx) {
	nodeIdExactMatch(c, "R-C05.5")
	p, r := c.P, c.R
	r.Rule("R-C05.1", "in tls.GenerateServerCertificates every path to loading the roots, to each x509.CreateCertificate, to the store of the response's ClientState and to every success return passes the true edge of req.SkipVerification or the success edge of verify(record, req) for a record loaded by key ID of the request key or by the request's node ID (constant-phi sensitive: a flag set in the loop and tested after it is followed per incoming edge)")
	r.Rule("R-C05.2", "a record that fails verification neither authorises nor ends the search: from the failure edge of the verify call inside the node-ID loop no block outside the loop is reachable without passing the loop header; the verify call on a node-set element must be inside a loop")
	r.Rule("R-C05.3", "every success return of the verifier is cut by ed25519.Verify(pk, req.Nonce, req.NonceSignature) and by (len(req.ClientState)==0 or ed25519.Verify(pk, req.ClientState, req.ClientStateSignature)), pk parsed from the record's CertificatePublicKeyPkix")
	r.Rule("R-C05.4", "each verify call is preceded on every path by non-empty req.Nonce and req.NonceSignature tests")
	r.NotDecided = append(r.NotDecided, "Ed25519 itself", "what an application NodeIdLoader returns for a node ID", "which records are in storage at the time of the call")

	gsc := c.need("R-C05.1", "tls", "GenerateServerCertificates")
	if gsc == nil {
		return
	}
	gate, verify, vcalls, ok := c05Gate(c, "R-C05.1", gsc)
	if !ok {
		return
	}
	req := paramOfType(gsc, typesPkg, "GenerateServerCertificatesRequest")

	// R-C05.1 sinks
	type sink struct {
		name string
		in   ssa.Instruction
	}
	var sinks []sink
	for i, cc := range callsNamed(gsc, typesPkg+".LoadRootCertificates") {
		sinks = append(sinks, sink{fmt.Sprintf("call LoadRootCertificates#%d", i), cc})
	}
	for i, cc := range callsNamed(gsc, "crypto/x509.CreateCertificate") {
		sinks = append(sinks, sink{fmt.Sprintf("call x509.CreateCertificate#%d", i), cc})
	}
	for i, st := range storesToField(gsc, "types.GenerateServerCertificatesResponse", "ClientState") {
		sinks = append(sinks, sink{fmt.Sprintf("store resp.ClientState#%d", i), st})
	}
	for i, ret := range core.SuccessReturns(gsc) {
		sinks = append(sinks, sink{fmt.Sprintf("success-return#%d", i), ret})
	}
	nCreate := len(callsNamed(gsc, "crypto/x509.CreateCertificate"))
	if nCreate == 0 || len(core.SuccessReturns(gsc)) == 0 {
		r.Unk("R-C05.1", "tls.GenerateServerCertificates sinks", p.Pos(gsc.Pos()), "no certificate-minting call or success return found")
	}
	for _, s := range sinks {
		res := core.CutReach(p, gsc, gate, s.in.Block())
		r.CutOb(p, "R-C05.1", "tls.GenerateServerCertificates sink="+s.name, p.Pos(s.in.Pos()), res, gate)
	}

	// R-C05.2 all records are tried
	for i, vc := range vcalls {
		sp, isElem := elemOf(core.Strip(vc.Call.Args[0]))
		if !isElem || !sp.HasFields("Nodes") {
			continue
		}
		construct := fmt.Sprintf("tls.GenerateServerCertificates node-id verify-call#%d", i)
		scc := sccOf(vc.Block())
		if scc == nil {
			r.Bad("R-C05.2", construct, p.Pos(vc.Pos()), "the verify call on an element of the node-ID record set is not inside a loop: at most the first record is tried")
			continue
		}
		okT, _, fail, _ := errTestEdges(vc)
		h := loopHeader(scc)
		if !okT || h == nil {
			r.Unk("R-C05.2", construct, p.Pos(vc.Pos()), "cannot find the error test of the verify call or the loop header")
			continue
		}
		esc := ""
		for b := range reachFrom(fail, map[*ssa.BasicBlock]bool{h: true}) {
			if !scc[b] {
				esc = fmt.Sprintf("b%d (%s)", b.Index, p.Pos(firstPos(b)))
				break
			}
		}
		if esc != "" {
			r.Bad("R-C05.2", construct, p.Pos(vc.Pos()), "from the verification-failure edge the loop is left without returning to the loop header (a failing record ends the search): escapes to "+esc)
		} else {
			r.OK("R-C05.2", construct, p.Pos(vc.Pos()), "failure edge leads only back to the loop header")
		}
	}

	// R-C05.3 verifier
	c05Verifier(c, verify)

	// R-C05.4 preconditions
	vsites := core.DeepFind(gsc, core.MaxSummaryDepth, func(in ssa.Instruction) bool {
		c, ok := in.(*ssa.Call)
		return ok && c.Common().StaticCallee() == verify
	})
	for i, site := range vsites {
		for _, f := range []string{"Nonce", "NonceSignature"} {
			g := core.NonEmpty("req."+f, core.FieldOf(req, f))
			res := core.CutDeep(p, gsc, g, site)
			r.CutOb(p, "R-C05.4", fmt.Sprintf("tls.GenerateServerCertificates verify-call#%d needs non-empty %s", i, f), p.Pos(site.Instr.Pos()), res, g)
		}
	}
}

func c05Verifier(c *Ctx, verify *ssa.Function) {
	p, r := c.P, c.R
	rec := paramOfType(verify, typesPkg, "NodeInformation")
	req := paramOfType(verify, typesPkg, "GenerateServerCertificatesRequest")
	vname := core.FuncName(verify)
	sigOK := func(msg, sig string) core.Guard {
		return core.BoolCall("ed25519.Verify(pk(record), req."+msg+", req."+sig+")", func(x *ssa.Call) bool {
			if core.CalleeName(x.Common()) != "crypto/ed25519.Verify" || len(x.Call.Args) != 3 {
				return false
			}
			kp, ok := keyFromPkix(x.Call.Args[0])
			if !ok || kp.Root != rec || !kp.HasFields("CertificatePublicKeyPkix") {
				return false
			}
			m, s := core.PathOf(x.Call.Args[1]), core.PathOf(x.Call.Args[2])
			return m.Root == req && m.HasFields(msg) && s.Root == req && s.HasFields(sig)
		})
	}
	rets := core.SuccessReturns(verify)
	if len(rets) == 0 {
		r.Unk("R-C05.3", vname+" success returns", p.Pos(verify.Pos()), "no success return found")
		return
	}
	gNonce := sigOK("Nonce", "NonceSignature")
	gState := core.AnyOf("len(req.ClientState)==0 or ed25519.Verify(pk(record), req.ClientState, req.ClientStateSignature)",
		core.LenEquals("req.ClientState", core.FieldOf(req, "ClientState"), 0),
		sigOK("ClientState", "ClientStateSignature"))
	for i, ret := range rets {
		res := core.CutReach(p, verify, gNonce, ret.Block())
		r.CutOb(p, "R-C05.3", fmt.Sprintf("%s success-return#%d nonce-signature", vname, i), p.Pos(ret.Pos()), res, gNonce)
		res = core.CutReach(p, verify, gState, ret.Block())
		r.CutOb(p, "R-C05.3", fmt.Sprintf("%s success-return#%d client-state-signature", vname, i), p.Pos(ret.Pos()), res, gState)
	}
}
