package rules

import (
	"fmt"
	"sort"
	"strings"

	"nechk/core"

	"golang.org/x/tools/go/ssa"
)

func init() { All["C06"] = c06 }

// tokenIdForm describes how a token's storage ID is derived. It accepts
// base58.FastBase58Encoding(hmac.New(sha256.New, K).Sum(N)) and returns the
// paths of K and N.
func tokenIdForm(v ssa.Value) (form string, key, nonce core.Path, ok bool) {
	// the derivation may live in a module helper: evaluate what it returns, with
	// its parameters standing for the call's arguments
	if vals, subst, h := helperResult(v); h != nil && len(vals) > 0 {
		first := true
		core.WithSubst(subst, func() {
			for _, rv := range vals {
				f2, k2, n2, ok2 := tokenIdForm(rv)
				if first {
					form, key, nonce, ok, first = f2, k2, n2, ok2, false
				} else if f2 != form || !ok2 {
					ok = false
				}
			}
		})
		return form, key, nonce, ok
	}
	c, idx := core.CallResult(core.Strip(v))
	if c == nil || idx != 0 {
		return "not a call: " + core.ValueName(v), key, nonce, false
	}
	enc := core.CalleeName(c.Common())
	if !strings.HasPrefix(enc, "github.com/mr-tron/base58.") || len(c.Call.Args) != 1 {
		return "not a base58 encoding: " + enc, key, nonce, false
	}
	sum, _ := core.CallResult(core.Strip(c.Call.Args[0]))
	if sum == nil || !sum.Common().IsInvoke() || sum.Common().Method.Name() != "Sum" {
		return "encoded value is not hash.Sum(...)", key, nonce, false
	}
	nonce = core.PathOf(sum.Common().Args[0])
	hm, _ := core.CallResult(core.Strip(sum.Common().Value))
	if hm == nil || core.CalleeName(hm.Common()) != "crypto/hmac.New" {
		return "hash is not hmac.New(...)", key, nonce, false
	}
	hf, _ := core.Strip(hm.Call.Args[0]).(*ssa.Function)
	hname := "?"
	if hf != nil {
		hname = hf.String()
	}
	key = core.PathOf(hm.Call.Args[1])
	form = fmt.Sprintf("%s(hmac.New(%s, key=.%s).Sum(.%s))", enc[strings.LastIndex(enc, ".")+1:], hname, strings.Join(key.Fields, "."), strings.Join(nonce.Fields, "."))
	return form, key, nonce, true
}

func tokenValidator(c *Ctx, rule string) *ssa.Function {
	a := resolveFetch(c, rule)
	if a == nil {
		return nil
	}
	fns := []*ssa.Function{a.fn}
	for part := range splitFuncs(a.fn, nil) {
		fns = append(fns, part)
	}
	sort.Slice(fns, func(i, j int) bool { return fns[i].Pos() < fns[j].Pos() })
	for _, f := range fns {
		for _, cal := range calleesInModule(f) {
			if paramOfType(cal, typesPkg, "ServerLedActivationTokenNonce") != nil && paramOfType(cal, typesPkg, "FetchNodeCredentialsInfo") != nil && helperOK(cal) {
				c.R.Fn(core.FuncName(cal))
				return cal
			}
		}
	}
	c.R.Unk(rule, "token validator", "", "FetchNodeCredentials calls no function taking (*FetchNodeCredentialsInfo, *ServerLedActivationTokenNonce)")
	return nil
}

func c06(c *Ctx) {
	r := c.R
	r.Rule("R-C06.1", "in the token validator the authorising call is cut by: success of LoadServerLedActivationToken for the ID derived from both token halves; non-nil, non-zero creation time; NOT(now > creation + opts.WithMaximumServerLedActivationTokenLifetime); success of storage.Remove of the loaded entry; the existing-record test (record for the request's key ID is nil)")
	r.Rule("R-C06.2", "Remove of the loaded token precedes authorisation and its failure edge reaches only error returns (part of R-C06.1's Remove guard) ")
	r.Rule("R-C06.3", "in CreateServerLedActivationToken the stored entry receives only {CreationTime<-timestamppb.Now, State<-opts.WithState, Id<-derived ID}; the HMAC key half is used only as hmac.New key, as random-fill target and inside the marshalled token that is returned; the token nonce object is never stored")
	r.Rule("R-C06.4", "LoadServerLedActivationToken: every success return is cut by successful unmarshal of CreationTimeMarshaled into CreationTime; and, when a storage wrapper is configured, by a successful Wrapper.Decrypt (never the unsealed bytes)")
	r.Rule("R-C06.5", "the AAD given to Encrypt in (*ServerLedActivationToken).Store and to Decrypt in LoadServerLedActivationToken is the record ID on both sides")
	r.Rule("R-C06.6", "creator and validator derive the storage ID from (nonce, hmac key) by the same call form")
	r.NotDecided = append(r.NotDecided, "single use under concurrent fetches (needs storage transactions)", "HMAC properties", "time passing")

	vform, ok := c06Validator(c)
	if !ok {
		return
	}
	c06Create(c, vform)
	c06Load(c)
	aadAgreement(c, "R-C06.5", "(*ServerLedActivationToken).Store", "LoadServerLedActivationToken", "ServerLedActivationToken")
}

func c06Create(c *Ctx, validatorForm string) {
	p, r := c.P, c.R
	fn := c.need("R-C06.3", "registration", "CreateServerLedActivationToken")
	if fn == nil {
		return
	}
	name := core.FuncName(fn)
	var entry, nonce *ssa.Alloc
	for _, b := range fn.Blocks {
		for _, in := range b.Instrs {
			if al, ok := in.(*ssa.Alloc); ok {
				if namedType(al.Type(), typesPkg, "ServerLedActivationToken") {
					entry = al
				}
				if namedType(al.Type(), typesPkg, "ServerLedActivationTokenNonce") {
					nonce = al
				}
			}
		}
	}
	if entry == nil || nonce == nil {
		r.Unk("R-C06.3", name+" anchors", p.Pos(fn.Pos()), "token entry / token nonce allocations not found")
		return
	}
	// (b) stores into the entry
	var idForm string
	nStores := 0
	for _, ref := range *entry.Referrers() {
		fa, ok := ref.(*ssa.FieldAddr)
		if !ok {
			continue
		}
		_, fname := core.FieldAddrName(fa)
		for _, r2 := range *fa.Referrers() {
			st, ok := r2.(*ssa.Store)
			if !ok || st.Addr != fa {
				continue
			}
			nStores++
			construct := name + " entry." + fname
			val := core.Strip(st.Val)
			switch fname {
			case "CreationTime":
				cc, _ := core.CallResult(val)
				r.Check(cc != nil && core.CalleeName(cc.Common()) == "google.golang.org/protobuf/types/known/timestamppb.Now", "R-C06.3", construct, p.Pos(st.Pos()),
					"creation time is the current time", "creation time is not timestamppb.Now(): "+core.ValueName(val))
			case "State":
				pp := core.PathOf(val)
				r.Check(pp.HasFields("WithState"), "R-C06.3", construct, p.Pos(st.Pos()), "application state option", "entry state is not opts.WithState: "+pp.String())
			case "Id":
				form, key, non, ok := tokenIdForm(val)
				idForm = form
				r.Check(ok && key.Root == nonce && key.HasFields("HmacKeyBytes") && non.Root == nonce && non.HasFields("Nonce"), "R-C06.3", construct, p.Pos(st.Pos()),
					"ID = "+form, "entry ID is not derived from both token halves through the HMAC: "+form)
			default:
				r.Bad("R-C06.3", construct, p.Pos(st.Pos()), "unreviewed field of the stored token entry is written (could persist token material): value "+core.ValueName(val))
			}
		}
	}
	if nStores == 0 {
		r.Unk("R-C06.3", name+" entry stores", p.Pos(fn.Pos()), "no field store into the token entry found")
	}
	// (c) uses of the HMAC key half and of the nonce object
	var bad []string
	for _, ref := range *nonce.Referrers() {
		switch x := ref.(type) {
		case *ssa.FieldAddr:
			_, fname := core.FieldAddrName(x)
			if fname != "HmacKeyBytes" {
				continue
			}
			for _, r2 := range *x.Referrers() {
				ld, ok := r2.(*ssa.UnOp)
				if !ok {
					continue // stores into the field
				}
				bad = append(bad, hmacKeyUses(p, ld, 0)...)
			}
		case *ssa.MakeInterface:
			for _, use := range *x.Referrers() {
				if u, ok := use.(*ssa.Call); ok && core.CalleeName(u.Common()) == "google.golang.org/protobuf/proto.Marshal" {
					continue
				}
				bad = append(bad, p.Pos(use.Pos())+" token nonce object escapes to "+fmt.Sprintf("%T", use))
			}
		case *ssa.Store:
			if x.Val == nonce {
				bad = append(bad, p.Pos(x.Pos())+" token nonce object is stored")
			}
		case *ssa.Call:
			if h := core.ModuleCallee(x.Common()); h != nil {
				for i, a := range x.Common().Args {
					if a == ssa.Value(nonce) && i < len(h.Params) {
						bad = append(bad, nonceUses(p, h.Params[i], 1)...)
					}
				}
				continue
			}
			bad = append(bad, p.Pos(x.Pos())+" token nonce object passed to "+shortName(core.CalleeName(x.Common())))
		}
	}
	sort.Strings(bad)
	r.Check(len(bad) == 0, "R-C06.3", name+" uses of the hmac key half / token object", p.Pos(fn.Pos()),
		"hmac key used only as HMAC key and random-fill target; token object only marshalled into the returned token", strings.Join(bad, "; "))
	// the marshalled token never reaches Store: the entry passed to Store is the entry alloc checked above
	for _, ci := range core.AllCalls(fn) {
		cal := ci.Common().StaticCallee()
		if cal != nil && cal.Name() == "Store" && core.InModule(cal) {
			r.Check(core.Strip(ci.Common().Args[0]) == entry, "R-C06.3", name+" stored object", p.Pos(ci.Pos()), "the stored object is the checked entry", "Store is called on a different object than the checked token entry")
		}
	}
	// R-C06.6
	r.Check(idForm != "" && idForm == validatorForm, "R-C06.6", "token ID derivation creator vs validator", p.Pos(fn.Pos()),
		"both sides: "+idForm, "creator derives "+idForm+" but validator derives "+validatorForm+": a token cannot be found under the ID it was stored with (or is found under another)")
}

func c06Load(c *Ctx) {
	p, r := c.P, c.R
	fn := c.need("R-C06.4", "types", "LoadServerLedActivationToken")
	if fn == nil {
		return
	}
	name := core.FuncName(fn)
	rets := core.SuccessReturns(fn)
	if len(rets) == 0 {
		r.Unk("R-C06.4", name+" success returns", p.Pos(fn.Pos()), "none found")
		return
	}
	for i, ret := range rets {
		tok := core.Strip(ret.Results[0])
		gUnm := core.ErrNil("proto.Unmarshal(token.CreationTimeMarshaled, token.CreationTime)", func(x *ssa.Call) bool {
			if core.CalleeName(x.Common()) != "google.golang.org/protobuf/proto.Unmarshal" {
				return false
			}
			a0, a1 := core.PathOf(x.Call.Args[0]), core.PathOf(x.Call.Args[1])
			return a0.Root == tok && a0.HasFields("CreationTimeMarshaled") && a1.Root == tok && a1.HasFields("CreationTime")
		})
		res := core.CutReach(p, fn, gUnm, ret.Block())
		r.CutOb(p, "R-C06.4", fmt.Sprintf("%s success-return#%d creation-time-from-marshaled", name, i), p.Pos(ret.Pos()), res, gUnm)
		gSealed := core.AnyOf("no storage wrapper configured, or Wrapper.Decrypt succeeded",
			core.NilTest("opts.WithStorageWrapper is nil", core.AnyRootField("WithStorageWrapper"), true),
			core.ErrNil("Wrapper.Decrypt", func(x *ssa.Call) bool { e, ok := core.WrapperMethod(x.Common()); return ok && e == core.EffUnwrap }))
		res = core.CutReach(p, fn, gSealed, ret.Block())
		r.CutOb(p, "R-C06.4", fmt.Sprintf("%s success-return#%d sealed-time-required", name, i), p.Pos(ret.Pos()), res, gSealed)
	}
}

// c06Validator evaluates the token-validator rules (R-C06.1, R-C06.2); it is
// shared with C01, whose clause (b) depends on them. Returns the ID derivation
// form used by the validator.
func c06Validator(c *Ctx) (string, bool) {
	p, r := c.P, c.R
	T := tokenValidator(c, "R-C06.1")
	if T == nil {
		return "", false
	}
	tname := core.FuncName(T)
	info := paramOfType(T, typesPkg, "FetchNodeCredentialsInfo")
	tn := paramOfType(T, typesPkg, "ServerLedActivationTokenNonce")
	var auth []*ssa.Call
	for _, ci := range core.AllCalls(T) {
		call, ok := ci.(*ssa.Call)
		if !ok {
			continue
		}
		cal := call.Common().StaticCallee()
		if cal != nil && cal != T && core.InModule(cal) && cal.Signature.Results().Len() == 2 &&
			namedType(cal.Signature.Results().At(0).Type(), typesPkg, "NodeInformation") && paramOfType(cal, typesPkg, "FetchNodeCredentialsInfo") != nil {
			auth = append(auth, call)
		}
	}
	loads := callsNamed(T, typesPkg+".LoadServerLedActivationToken")
	if len(auth) == 0 || len(loads) != 1 {
		r.Unk("R-C06.1", tname+" anchors", p.Pos(T.Pos()), fmt.Sprintf("authorising calls=%d, token loads=%d (want >=1, 1)", len(auth), len(loads)))
		return "", false
	}
	load := loads[0]
	entry := extractOf(load, 0)
	// ID derivation in the validator
	vform, vkey, vnonce, vok := tokenIdForm(load.Call.Args[2])
	r.Check(vok && vkey.Root == tn && vkey.HasFields("HmacKeyBytes") && vnonce.Root == tn && vnonce.HasFields("Nonce"),
		"R-C06.1", tname+" token-id derivation", p.Pos(load.Pos()), "ID = "+vform+" over the presented token", "token entry is looked up under an ID not derived from both halves of the presented token: "+vform)

	var optsV ssa.Value
	for _, oc := range callsNamed(T, mod+".GetOpts") {
		optsV = extractOf(oc, 0)
	}
	_ = optsV
	isNow := func(t core.TimeForm) bool { return t.Base == "now" && len(t.Terms) == 0 }
	gs := []core.Guard{
		core.ErrNil("LoadServerLedActivationToken", func(x *ssa.Call) bool { return x == load }),
		core.NilTest("entry.CreationTime non-nil", core.FieldOf(entry, "CreationTime"), false),
		{Name: "Not(entry.CreationTime.IsZero())", Match: func(cond ssa.Value) (int, bool) {
			cc, ok := cond.(*ssa.Call)
			if !ok || core.CalleeName(cc.Common()) != "(time.Time).IsZero" {
				return 0, false
			}
			f := core.TimeFormOf(cc.Call.Args[0])
			if f.Base == "ts:CreationTime" && f.Root == entry && len(f.Terms) == 0 {
				return 1, true
			}
			return 0, false
		}},
		core.TimeNotGreater("now > entry.CreationTime+WithMaximumServerLedActivationTokenLifetime", isNow, func(t core.TimeForm) bool {
			return t.Base == "ts:CreationTime" && t.Root == entry && len(t.Terms) == 1 && t.Terms[0] == "WithMaximumServerLedActivationTokenLifetime"
		}),
		core.ErrNil("storage.Remove(entry)", func(x *ssa.Call) bool {
			eff, ok := core.StorageMethod(x.Common())
			return ok && eff == core.EffRemove && core.Strip(x.Common().Args[1]) == entry
		}),
		core.NilTest("existing record for key ID of the request is nil", func(pp core.Path) bool {
			if len(pp.Fields) != 0 {
				return false
			}
			lc, idx := core.CallResult(pp.Root)
			if lc == nil || idx != 0 || core.CalleeName(lc.Common()) != typesPkg+".LoadNodeInformation" {
				return false
			}
			idc, i0 := core.CallResult(lc.Call.Args[2])
			if idc == nil || i0 != 0 || core.CalleeName(idc.Common()) != mod+".KeyIdFromPkix" {
				return false
			}
			ap := core.PathOf(idc.Call.Args[0])
			return ap.Root == info && ap.HasFields("CertificatePublicKeyPkix")
		}, true),
	}
	for i, ac := range auth {
		passes := false
		for _, arg := range ac.Call.Args {
			if core.Strip(arg) == info {
				passes = true
			}
		}
		r.Check(passes, "R-C06.1", fmt.Sprintf("%s authorise-call#%d argument", tname, i), p.Pos(ac.Pos()), "authorises the request info it validated", "authorises something other than the request info parameter")
		for _, g := range gs {
			res := core.CutReach(p, T, g, ac.Block())
			r.CutOb(p, "R-C06.1", fmt.Sprintf("%s authorise-call#%d guard=%s", tname, i, g.Name), p.Pos(ac.Pos()), res, g)
		}
	}
	// the time tests in the validator: exactly IsZero + expiry, one clock reading used in expiry
	nrel := countTimeRels(T)
	r.Check(nrel == 1, "R-C06.1", tname+" number of time comparisons", p.Pos(T.Pos()), "exactly the expiry comparison", fmt.Sprintf("%d time comparisons; only the expiry test is expected", nrel))

	// R-C06.2: failure edge of Remove reaches only error returns
	for _, b := range T.Blocks {
		for _, in := range b.Instrs {
			call, ok := in.(*ssa.Call)
			if !ok {
				continue
			}
			if eff, ok := core.StorageMethod(call.Common()); !ok || eff != core.EffRemove {
				continue
			}
			okT, _, fail, _ := errTestEdges(call)
			if !okT {
				r.Bad("R-C06.2", tname+" Remove error test", p.Pos(call.Pos()), "the error of storage.Remove is not tested")
				continue
			}
			bad := ""
			for x := range reachFrom(fail, nil) {
				if ret, ok := x.Instrs[len(x.Instrs)-1].(*ssa.Return); ok && core.ReturnErrKind(ret, 1) != core.ErrNonNil {
					bad = p.Pos(ret.Pos())
				}
				for _, in2 := range x.Instrs {
					for _, ac := range auth {
						if in2 == ac {
							bad = "authorising call at " + p.Pos(ac.Pos())
						}
					}
				}
			}
			r.Check(bad == "", "R-C06.2", tname+" Remove failure edge", p.Pos(call.Pos()), "failure of Remove reaches only error returns", "after a failed Remove the function can still reach "+bad)
		}
	}

	return vform, true
}

// nonceUses lists disallowed uses of a token-nonce object inside a helper:
// the HMAC key half may only be the key of hmac.New (or a length / random
// fill); the object may only be marshalled.
func nonceUses(p *core.Prog, obj ssa.Value, depth int) []string {
	var bad []string
	refs := obj.Referrers()
	if refs == nil {
		return nil
	}
	for _, ref := range *refs {
		switch x := ref.(type) {
		case *ssa.FieldAddr:
			_, fname := core.FieldAddrName(x)
			if fname != "HmacKeyBytes" {
				continue
			}
			for _, r2 := range *x.Referrers() {
				ld, ok := r2.(*ssa.UnOp)
				if !ok {
					bad = append(bad, p.Pos(r2.Pos())+" HmacKeyBytes written in helper")
					continue
				}
				for _, use := range *ld.Referrers() {
					switch u := use.(type) {
					case *ssa.Call:
						n := core.CalleeName(u.Common())
						if (n == "crypto/hmac.New" && len(u.Call.Args) == 2 && u.Call.Args[1] == ssa.Value(ld)) || n == "builtin:len" {
							continue
						}
						bad = append(bad, p.Pos(u.Pos())+" HmacKeyBytes passed to "+shortName(n))
					case *ssa.DebugRef:
					default:
						bad = append(bad, p.Pos(use.Pos())+" HmacKeyBytes used by "+fmt.Sprintf("%T", use))
					}
				}
			}
		case *ssa.DebugRef, *ssa.BinOp:
		case *ssa.MakeInterface:
			for _, use := range *x.Referrers() {
				if u, ok := use.(*ssa.Call); ok && core.CalleeName(u.Common()) == "google.golang.org/protobuf/proto.Marshal" {
					continue
				}
				bad = append(bad, p.Pos(use.Pos())+" token nonce object escapes in helper")
			}
		default:
			bad = append(bad, p.Pos(ref.Pos())+" token nonce object used by "+fmt.Sprintf("%T", ref)+" in helper")
		}
	}
	return bad
}


// hmacKeyUses lists uses of the HMAC key bytes v other than: key of hmac.New,
// len, target of a random Read - following the value into unexported helpers
// it is handed to (their parameter must be used the same way).
func hmacKeyUses(p *core.Prog, v ssa.Value, depth int) []string {
	var bad []string
	if v.Referrers() == nil {
		return nil
	}
	for _, use := range *v.Referrers() {
		switch u := use.(type) {
		case *ssa.Call:
			n := core.CalleeName(u.Common())
			switch {
			case n == "crypto/hmac.New" && len(u.Call.Args) == 2 && u.Call.Args[1] == v:
			case n == "builtin:len":
			case u.Common().IsInvoke() && u.Common().Method.Name() == "Read":
			default:
				if h := core.ModuleCallee(u.Common()); h != nil && depth < core.MaxSummaryDepth {
					followed := false
					for i, a := range u.Common().Args {
						if a == v && i < len(h.Params) {
							followed = true
							bad = append(bad, hmacKeyUses(p, h.Params[i], depth+1)...)
						}
					}
					if followed {
						continue
					}
				}
				bad = append(bad, p.Pos(u.Pos())+" HmacKeyBytes passed to "+shortName(n))
			}
		case *ssa.DebugRef:
		default:
			bad = append(bad, p.Pos(use.Pos())+" HmacKeyBytes used by "+fmt.Sprintf("%T", use))
		}
	}
	return bad
}
