package rules

import (
	"go/constant"
	"go/token"
	"go/types"
	"sort"
	"strings"

	"nechk/core"

	"golang.org/x/tools/go/ssa"
)

// namedType reports whether t (after removing one pointer) is the named type
// pkgPath.name.
func namedType(t types.Type, pkgPath, name string) bool {
	if p, ok := t.(*types.Pointer); ok {
		t = p.Elem()
	}
	n, ok := t.(*types.Named)
	if !ok || n.Obj().Pkg() == nil {
		return false
	}
	return n.Obj().Pkg().Path() == pkgPath && n.Obj().Name() == name
}

// paramOfType returns the first parameter of fn whose type is *pkg.name.
func paramOfType(fn *ssa.Function, pkgPath, name string) *ssa.Parameter {
	for _, p := range fn.Params {
		if namedType(p.Type(), pkgPath, name) {
			return p
		}
	}
	return nil
}

// keyFromPkix traces a public-key value back through type assertions to a
// crypto/x509.ParsePKIXPublicKey call and returns the path of its argument.
func keyFromPkix(v ssa.Value) (core.Path, bool) {
	for i := 0; i < 8; i++ {
		v = core.Strip(v)
		switch x := v.(type) {
		case *ssa.Extract:
			switch t := x.Tuple.(type) {
			case *ssa.TypeAssert:
				v = t.X
				continue
			case *ssa.Call:
				if core.CalleeName(t.Common()) == "crypto/x509.ParsePKIXPublicKey" && x.Index == 0 {
					return core.PathOf(t.Call.Args[0]), true
				}
				// a parsing helper: the key it returns
				if vals, subst, h := helperResult(x); h != nil && len(vals) == 1 {
					var pp core.Path
					ok := false
					core.WithSubst(subst, func() { pp, ok = keyFromPkix(vals[0]) })
					return pp, ok
				}
			}
			return core.Path{}, false
		case *ssa.TypeAssert:
			v = x.X
			continue
		case *ssa.Convert:
			v = x.X
			continue
		}
		break
	}
	return core.Path{}, false
}

// calleesInModule lists the distinct static module callees of fn.
func calleesInModule(fn *ssa.Function) []*ssa.Function {
	seen := map[*ssa.Function]bool{}
	var out []*ssa.Function
	for _, ci := range core.AllCalls(fn) {
		if cal := ci.Common().StaticCallee(); cal != nil && core.InModule(cal) && !seen[cal] {
			seen[cal] = true
			out = append(out, cal)
		}
	}
	return out
}

// callsTo lists the *ssa.Call instructions in fn whose static callee is target.
func callsTo(fn, target *ssa.Function) []*ssa.Call {
	var out []*ssa.Call
	for _, ci := range core.AllCalls(fn) {
		if c, ok := ci.(*ssa.Call); ok && ci.Common().StaticCallee() == target {
			out = append(out, c)
		}
	}
	return out
}

// callsNamed lists *ssa.Call instructions whose callee name is one of names.
func callsNamed(fn *ssa.Function, names ...string) []*ssa.Call {
	var out []*ssa.Call
	for _, ci := range core.Calls(fn, names...) {
		if c, ok := ci.(*ssa.Call); ok {
			out = append(out, c)
		}
	}
	return out
}

// storesToField lists Store instructions in fn whose address is the field
// named field of a struct named typeName ("pkg.Type").
func storesToField(fn *ssa.Function, typeName, field string) []*ssa.Store {
	var out []*ssa.Store
	for _, b := range fn.Blocks {
		for _, in := range b.Instrs {
			st, ok := in.(*ssa.Store)
			if !ok {
				continue
			}
			fa, ok := st.Addr.(*ssa.FieldAddr)
			if !ok {
				continue
			}
			tn, f := core.FieldAddrName(fa)
			if tn == typeName && f == field {
				out = append(out, st)
			}
		}
	}
	return out
}

// sccOf returns the strongly connected component (as a set) containing b, or
// nil when b is not on a cycle.
func sccOf(b *ssa.BasicBlock) map[*ssa.BasicBlock]bool {
	fwd := reach(b, func(x *ssa.BasicBlock) []*ssa.BasicBlock { return x.Succs }, nil)
	bwd := reach(b, func(x *ssa.BasicBlock) []*ssa.BasicBlock { return x.Preds }, nil)
	scc := map[*ssa.BasicBlock]bool{}
	for x := range fwd {
		if bwd[x] {
			scc[x] = true
		}
	}
	// b is on a cycle iff it is reachable from its own successors
	if !scc[b] {
		return nil
	}
	return scc
}

// reach computes the blocks reachable from the successors of start (start is
// included only if it lies on a cycle), never entering blocks in avoid.
func reach(start *ssa.BasicBlock, next func(*ssa.BasicBlock) []*ssa.BasicBlock, avoid map[*ssa.BasicBlock]bool) map[*ssa.BasicBlock]bool {
	seen := map[*ssa.BasicBlock]bool{}
	var stack []*ssa.BasicBlock
	for _, s := range next(start) {
		stack = append(stack, s)
	}
	for len(stack) > 0 {
		x := stack[len(stack)-1]
		stack = stack[:len(stack)-1]
		if seen[x] || avoid[x] {
			continue
		}
		seen[x] = true
		stack = append(stack, next(x)...)
	}
	return seen
}

// reachFrom is forward reachability from (and including) start avoiding blocks.
func reachFrom(start *ssa.BasicBlock, avoid map[*ssa.BasicBlock]bool) map[*ssa.BasicBlock]bool {
	seen := map[*ssa.BasicBlock]bool{}
	stack := []*ssa.BasicBlock{start}
	for len(stack) > 0 {
		x := stack[len(stack)-1]
		stack = stack[:len(stack)-1]
		if seen[x] || avoid[x] {
			continue
		}
		seen[x] = true
		stack = append(stack, x.Succs...)
	}
	return seen
}

// loopHeader returns the block of scc that dominates all others.
func loopHeader(scc map[*ssa.BasicBlock]bool) *ssa.BasicBlock {
	for h := range scc {
		all := true
		for x := range scc {
			if !h.Dominates(x) {
				all = false
				break
			}
		}
		if all {
			return h
		}
	}
	return nil
}

// errTestEdges finds the If that tests the error result of call c against nil
// and returns its (success, failure) successor blocks.
func errTestEdges(c *ssa.Call) (ok bool, succ, fail *ssa.BasicBlock, ifi *ssa.If) {
	g := core.ErrNil("", func(x *ssa.Call) bool { return x == c })
	for _, b := range c.Parent().Blocks {
		if len(b.Instrs) == 0 {
			continue
		}
		i, isIf := b.Instrs[len(b.Instrs)-1].(*ssa.If)
		if !isIf {
			continue
		}
		if s, m := core.MatchCond(g, i.Cond, nil); m {
			return true, b.Succs[s], b.Succs[1-s], i
		}
	}
	return false, nil, nil, nil
}

// shortName trims the module path from qualified names.
func shortName(s string) string {
	s = strings.ReplaceAll(s, mod+"/", "")
	s = strings.ReplaceAll(s, mod+".", "nodeenrollment.")
	return s
}

func isDeref(v ssa.Value) (*ssa.UnOp, bool) {
	u, ok := v.(*ssa.UnOp)
	return u, ok && u.Op == token.MUL
}

// elemOfField reports whether v is an element load x[i] (range element) of a
// slice whose path is root.<field>; returns the slice path.
func elemOf(v ssa.Value) (core.Path, bool) {
	u, ok := isDeref(v)
	if !ok {
		return core.Path{}, false
	}
	ia, ok := u.X.(*ssa.IndexAddr)
	if !ok {
		return core.Path{}, false
	}
	return core.PathOf(ia.X), true
}

func firstPos(b *ssa.BasicBlock) token.Pos {
	for _, in := range b.Instrs {
		if in.Pos().IsValid() {
			return in.Pos()
		}
	}
	return token.NoPos
}

// paramRoot returns the value that access paths through parameter p are
// rooted at: the local spill slot when go/ssa spilled the (struct-valued or
// captured) parameter, else the parameter itself.
func paramRoot(p *ssa.Parameter) ssa.Value {
	for _, ref := range *p.Referrers() {
		if st, ok := ref.(*ssa.Store); ok && st.Val == p {
			if al, ok := st.Addr.(*ssa.Alloc); ok && !al.Heap {
				return al
			}
		}
	}
	return p
}

// freeVar returns the free variable of closure fn with the given name.
func freeVar(fn *ssa.Function, name string) *ssa.FreeVar {
	for _, fv := range fn.FreeVars {
		if fv.Name() == name {
			return fv
		}
	}
	return nil
}

// closureOf returns the anonymous functions created directly inside fn.
func closuresOf(fn *ssa.Function) []*ssa.Function { return fn.AnonFuncs }

// strPrefixGuard is the fact strings.HasPrefix(x, prefix) for x accepted by m.
func strPrefixGuard(name string, m func(ssa.Value) bool, prefixes ...string) core.Guard {
	return core.BoolCall("HasPrefix("+name+")", func(c *ssa.Call) bool {
		if core.CalleeName(c.Common()) != "strings.HasPrefix" {
			return false
		}
		s, ok := core.ConstString(c.Call.Args[1])
		if !ok {
			return false
		}
		for _, p := range prefixes {
			if s == p && m(c.Call.Args[0]) {
				return true
			}
		}
		return false
	})
}

// constOf returns the value of a package-level string constant of the module
// root package.
func (c *Ctx) rootConst(name string) string {
	obj := c.P.Mod[mod].Types.Scope().Lookup(name)
	if cst, ok := obj.(*types.Const); ok {
		return constantString(cst)
	}
	return ""
}

func constantString(c *types.Const) string {
	if c.Val().Kind() == constant.String {
		return constant.StringVal(c.Val())
	}
	return c.Val().ExactString()
}

func structOfType(t types.Type) *types.Struct {
	if p, ok := t.Underlying().(*types.Pointer); ok {
		t = p.Elem()
	}
	st, _ := t.Underlying().(*types.Struct)
	return st
}

func typesPointer(tn *ssa.Type) types.Type { return types.NewPointer(tn.Type()) }

// extractOf2 returns the Extract #idx of a tuple-valued instruction.
func extractOf2(v ssa.Value, idx int) ssa.Value {
	for _, r := range *v.Referrers() {
		if e, ok := r.(*ssa.Extract); ok && e.Index == idx {
			return e
		}
	}
	return nil
}

// fnValue returns the function denoted by a function-typed value: a closure
// (with or without captured variables) or a plain function.
func fnValue(v ssa.Value) *ssa.Function {
	switch x := v.(type) {
	case *ssa.MakeClosure:
		f, _ := x.Fn.(*ssa.Function)
		return f
	case *ssa.Function:
		return x
	case *ssa.ChangeType:
		return fnValue(x.X)
	}
	return nil
}

// countTimeRels counts time comparisons (After/Before) in fn and its module
// helpers.
func countTimeRels(fn *ssa.Function) int {
	n := 0
	for _, f := range core.DeepFuncs(fn, core.MaxSummaryDepth) {
		for _, b := range f.Blocks {
			for _, in := range b.Instrs {
				if cc, ok := in.(*ssa.Call); ok {
					if _, ok := core.TimeRelOf(cc); ok {
						n++
					}
				}
			}
		}
	}
	return n
}

// helperResult: when v is result #k of a call to a module helper, returns the
// values the helper returns for that result (non-zero-constant ones) together
// with the substitution to evaluate them under.
func helperResult(v ssa.Value) (vals []ssa.Value, subst map[ssa.Value]ssa.Value, h *ssa.Function) {
	call, idx := core.CallResult(core.Strip(v))
	if call == nil || idx < 0 {
		return nil, nil, nil
	}
	h = core.ModuleCallee(call.Common())
	if h == nil {
		return nil, nil, nil
	}
	for _, ret := range core.Returns(h) {
		if idx >= len(ret.Results) {
			continue
		}
		rv := core.ReturnOperand(ret, idx)
		if c, ok := rv.(*ssa.Const); ok && (c.Value == nil || c.IsNil() || c.String() == `"":string`) {
			continue
		}
		vals = append(vals, rv)
	}
	return vals, core.FrameSubst(call.Common(), h), h
}

// eachValue runs f on v, or - when v is the result of a module helper call -
// on each value the helper returns for that result, with the helper's
// parameters bound to the call's arguments (depth-bounded).
//
// anchors names module functions a rule recognises by itself: their results
// are handed to f as they are.
func eachValue(v ssa.Value, f func(ssa.Value), anchors ...string) {
	eachValueDepth(v, f, 0, anchors)
}

func eachValueDepth(v ssa.Value, f func(ssa.Value), depth int, anchors []string) {
	if depth < core.MaxSummaryDepth {
		if vals, subst, h := helperResult(v); h != nil && len(vals) > 0 {
			isAnchor := false
			for _, a := range anchors {
				if h.String() == a {
					isAnchor = true
				}
			}
			if !isAnchor {
				core.WithSubst(subst, func() {
					for _, rv := range vals {
						eachValueDepth(rv, f, depth+1, anchors)
					}
				})
				return
			}
		}
	}
	f(v)
}

// resolveAlloc returns the local allocation v denotes: directly, or as the
// single value a module helper returns (evaluated by fn under the helper's
// substitution).
func withAlloc(v ssa.Value, fn func(*ssa.Alloc)) bool {
	found := false
	eachValue(v, func(x ssa.Value) {
		if al, ok := core.Strip(x).(*ssa.Alloc); ok {
			found = true
			fn(al)
		}
	})
	return found
}

// tailReturnSites lists the success returns of fn, following "return helper(...)"
// into the unexported helpers fn was split into: the returns that actually
// build the value, each with its call chain.
func tailReturnSites(fn *ssa.Function) []core.DeepSite {
	var out []core.DeepSite
	var collect func(f *ssa.Function, chain []ssa.CallInstruction, calls []*ssa.Call)
	collect = func(f *ssa.Function, chain []ssa.CallInstruction, calls []*ssa.Call) {
		for _, ret := range core.SuccessReturns(f) {
			if len(ret.Results) > 0 && len(calls) < core.InterDepth {
				if call, idx := core.CallResult(core.Strip(ret.Results[0])); call != nil && idx == 0 {
					if h := core.ModuleCallee(call.Common()); h != nil && h != f && len(core.SplitFind(f, nil, func(in ssa.Instruction) bool { return in == ssa.Instruction(call) })) > 0 && splitFuncs(f, nil)[h] {
						collect(h, append(append([]ssa.CallInstruction{}, chain...), call), append(append([]*ssa.Call{}, calls...), call))
						continue
					}
				}
			}
			out = append(out, core.DeepSite{Instr: ret, Fn: f, Chain: chain})
		}
	}
	collect(fn, nil, nil)
	return out
}

// lockPairing: every hand-written module function that locks a mutex releases
// it on every path to every return (a deferred unlock counts). A lock left
// held on one path blocks every later caller.
func lockPairing(c *Ctx, rule string) {
	p, r := c.P, c.R
	r.Rule(rule, "lock pairing, module-wide: for every mutex a hand-written function locks (sync.Mutex / sync.RWMutex, identified by its field), the lock-state dataflow reaches every return with the mutex released and without conflicting states; a path that returns with the lock held blocks every later handshake / call")
	n := 0
	for _, fn := range p.ModuleFuncs() {
		if fn.Blocks == nil || isGenerated(p, fn) {
			continue
		}
		fields := map[string]bool{}
		for _, ci := range core.AllCalls(fn) {
			cal := ci.Common().StaticCallee()
			if cal == nil || len(ci.Common().Args) == 0 {
				continue
			}
			nm := cal.String()
			if strings.HasSuffix(nm, "sync.Mutex).Lock") || strings.HasSuffix(nm, "sync.RWMutex).Lock") || strings.HasSuffix(nm, "sync.RWMutex).RLock") {
				fields[strings.TrimPrefix(core.PathOf(ci.Common().Args[0]).Last(), "&")] = true
			}
		}
		var fs []string
		for f := range fields {
			fs = append(fs, f)
		}
		sort.Strings(fs)
		for _, f := range fs {
			if f == "" {
				continue
			}
			n++
			li := core.LockFlow(p, fn, f, core.LNone)
			var bad []string
			for ret, st := range li.AtReturn {
				if st != core.LNone {
					bad = append(bad, p.Pos(ret.Pos())+" returns holding "+st.String())
				}
			}
			sort.Strings(bad)
			r.Check(len(bad) == 0, rule, core.FuncName(fn)+" releases "+f, p.Pos(fn.Pos()), "released on every return", "mutex "+f+" is still held on a return path ("+strings.Join(bad, "; ")+"): every later caller blocks")
		}
	}
	if n == 0 {
		r.OK(rule, "module lock sites", "", "no function locks a mutex")
	}
}

// upperBoundTests lists "len(x) > K" / "len(x) >= K" tests (and their mirrored
// forms) in fn and the helpers it was split into, with the value measured.
type lenBound struct {
	If   *ssa.If
	Val  ssa.Value // the measured value (frame-substituted)
	K    int64
	Site core.DeepSite
}

func upperBoundTests(fn *ssa.Function) []lenBound {
	var out []lenBound
	for _, site := range core.SplitFind(fn, nil, func(in ssa.Instruction) bool { _, ok := in.(*ssa.If); return ok }) {
		ifi := site.Instr.(*ssa.If)
		bo, ok := ifi.Cond.(*ssa.BinOp)
		if !ok {
			continue
		}
		x, y, op := bo.X, bo.Y, bo.Op
		if _, isC := core.ConstInt(x); isC {
			x, y = y, x
			switch op {
			case token.LSS:
				op = token.GTR
			case token.LEQ:
				op = token.GEQ
			case token.GTR:
				op = token.LSS
			case token.GEQ:
				op = token.LEQ
			}
		}
		k, isK := core.ConstInt(y)
		lc, isLen := x.(*ssa.Call)
		if !isK || !isLen || core.CalleeName(lc.Common()) != "builtin:len" || (op != token.GTR && op != token.GEQ) {
			continue
		}
		var v ssa.Value
		site.In(func() { v = core.Strip(lc.Call.Args[0]) })
		out = append(out, lenBound{If: ifi, Val: v, K: k, Site: site})
	}
	return out
}

// nodeIdExactMatch: every module implementation of LoadByNodeId selects records
// by exact equality of the node ID (no case folding, trimming or prefix match).
func nodeIdExactMatch(c *Ctx, rule string) {
	p, r := c.P, c.R
	r.Rule(rule, "node-ID lookups are exact: in every module implementation of NodeIdLoader.LoadByNodeId the stored NodeId and the requested one are compared with ==; no strings.* transformation or fuzzy comparison (EqualFold, ToLower, TrimSpace, HasPrefix, Contains) is applied to either")
	n := 0
	for _, fn := range p.ModuleFuncs() {
		if fn.Name() != "LoadByNodeId" || fn.Blocks == nil || fn.Signature.Recv() == nil {
			continue
		}
		n++
		bad := ""
		isNodeId := func(v ssa.Value) bool {
			v = core.Strip(v)
			if cc, _ := core.CallResult(v); cc != nil && (cc.Common().IsInvoke() && cc.Common().Method.Name() == "GetNodeId" || strings.HasSuffix(core.CalleeName(cc.Common()), ".GetNodeId")) {
				return true
			}
			return strings.TrimPrefix(core.PathOf(v).Last(), "&") == "NodeId"
		}
		for _, f := range append([]*ssa.Function{fn}, fn.AnonFuncs...) {
			for _, ci := range core.AllCalls(f) {
				nm := core.CalleeName(ci.Common())
				if !strings.HasPrefix(nm, "strings.") && !strings.HasPrefix(nm, "bytes.") && !strings.HasPrefix(nm, "unicode") {
					continue
				}
				for _, a := range ci.Common().Args {
					if isNodeId(a) {
						bad = nm + " applied to the node ID at " + p.Pos(ci.Pos())
					}
				}
			}
		}
		r.Check(bad == "", rule, core.FuncName(fn)+" node-ID comparison", p.Pos(fn.Pos()), "exact equality", bad+": records of a different node (an ID differing only in case, spacing, ...) are returned for this node ID")
	}
	if n == 0 {
		r.OK(rule, "LoadByNodeId implementations", "", "none in the module")
	}
}


// returnSites lists every return of fn, following "return helper(...)" (the whole
// result tuple is the helper's) into the helpers fn was split into.
func returnSites(fn *ssa.Function) []core.DeepSite {
	var out []core.DeepSite
	var collect func(f *ssa.Function, chain []ssa.CallInstruction, depth int)
	collect = func(f *ssa.Function, chain []ssa.CallInstruction, depth int) {
		for _, ret := range core.Returns(f) {
			if len(ret.Results) > 0 && depth < core.InterDepth {
				if call, idx := core.CallResult(core.Strip(ret.Results[0])); call != nil && idx == 0 {
					if h := core.ModuleCallee(call.Common()); h != nil && h != f && splitFuncs(f, nil)[h] && h.Signature.Results().Len() == len(ret.Results) {
						collect(h, append(append([]ssa.CallInstruction{}, chain...), call), depth+1)
						continue
					}
				}
			}
			out = append(out, core.DeepSite{Instr: ret, Fn: f, Chain: chain})
		}
	}
	collect(fn, nil, 0)
	return out
}
