package rules

import (
	"fmt"
	"go/ast"
	"go/token"
	"go/types"
	"sort"
	"strings"

	"nechk/core"

	"golang.org/x/tools/go/ssa"
)

const mlType = "net.MultiplexingListener"

// mlFuncs: methods of MultiplexingListener and their closures, with the lock
// state they start in (closures run synchronously by sync.Once.Do inherit the
// state at the Do call).
func mlFuncs(c *Ctx) map[*ssa.Function]core.LockState {
	out := map[*ssa.Function]core.LockState{}
	for _, fn := range c.P.ModuleFuncs() {
		top := fn
		for top.Parent() != nil {
			top = top.Parent()
		}
		if top.Signature.Recv() == nil || !namedType(top.Signature.Recv().Type(), netPkg, "MultiplexingListener") {
			continue
		}
		out[fn] = core.LNone
	}
	// inherit for Once.Do closures
	for fn := range out {
		li := core.LockFlow(c.P, fn, "closedMutex", out[fn])
		for _, dc := range callsNamed(fn, "(*sync.Once).Do") {
			if cf := fnValue(dc.Call.Args[1]); cf != nil {
				out[cf] = li.Before[dc]
			}
		}
	}
	return out
}

func c18(c *Ctx) {
	lockPairing(c, "R-C18.8")
	p, r := c.P, c.R
	r.Rule("R-C18.1", "every access to MultiplexingListener.closed happens with closedMutex held: reads under R or W, writes under W (forward lock-state dataflow, defer-aware; sync.Once.Do closures inherit the caller's state)")
	r.Rule("R-C18.2", "every send on incoming is in a read-locked region and cut by the false edge of the closed flag tested inside that same region (no lock operation between test and send)")
	r.Rule("R-C18.3", "close(incoming) occurs only inside closedOnce.Do, under the write lock, after closed = true")
	r.Rule("R-C18.4", "in Close the call that starts the drain goroutine precedes the Lock() acquisition (a sender blocked under the read lock would otherwise deadlock Close)")
	r.Rule("R-C18.9", "Close always closes: every return of MultiplexingListener.Close is reached only after the drain was started, the closed flag was set and the incoming channel was closed through closedOnce (no early exit that skips them - blocked senders and their connections would be stranded)")
	r.Rule("R-C18.5", "ownership: a connection received from incoming is returned or closed exactly once on every path of Accept; the drain goroutine closes every received connection; IngressConn and the IngressListener goroutine either send or close")
	r.Rule("R-C18.6", "the lock state is none at every return and no lock is acquired while one is held")
	r.Rule("R-C18.7", "Accept reports closure with the net.ErrClosed sentinel and a nil connection on the context-done arms and on the closed-channel arm")
	r.NotDecided = append(r.NotDecided, "deadlock freedom and exactly-once delivery over all schedules", "data-race freedom beyond this lock-set discipline")

	fns := mlFuncs(c)
	if len(fns) < 8 {
		r.Unk("R-C18.1", "MultiplexingListener functions", "", fmt.Sprintf("only %d functions found", len(fns)))
	}
	var ordered []*ssa.Function
	for fn := range fns {
		ordered = append(ordered, fn)
	}
	sort.Slice(ordered, func(i, j int) bool { return core.FuncName(ordered[i]) < core.FuncName(ordered[j]) })
	nAcc, nSend, nClose := 0, 0, 0
	for _, fn := range ordered {
		r.Fn(core.FuncName(fn))
		name := core.FuncName(fn)
		li := core.LockFlow(p, fn, "closedMutex", fns[fn])
		// R-C18.6
		okRet := true
		for ret, s := range li.AtReturn {
			if s != fns[fn] {
				okRet = false
				r.Bad("R-C18.6", name+" lock state at return", p.Pos(ret.Pos()), "returns holding "+s.String()+" (entered with "+fns[fn].String()+")")
			}
		}
		if okRet && len(li.Problems) == 0 {
			r.OK("R-C18.6", name+" lock balance", p.Pos(fn.Pos()), "balanced on every path")
		}
		for _, pr := range li.Problems {
			r.Bad("R-C18.6", name+" lock misuse "+pr[strings.Index(pr, ": ")+2:], pr[:strings.Index(pr, ": ")], pr)
		}
		nR, nW := 0, 0
		for _, b := range fn.Blocks {
			for _, in := range b.Instrs {
				// R-C18.1
				if w, ok := core.IsFieldAccess(in, mlType, "closed"); ok {
					nAcc++
					s := li.Before[in]
					if w {
						nW++
						r.Check(s == core.LWrite, "R-C18.1", fmt.Sprintf("%s write#%d of closed", name, nW), p.Pos(in.Pos()), "under the write lock", "closed is written while holding "+s.String())
					} else {
						nR++
						r.Check(s == core.LRead || s == core.LWrite, "R-C18.1", fmt.Sprintf("%s read#%d of closed", name, nR), p.Pos(in.Pos()), "under "+s.String(), "closed is read while holding "+s.String())
					}
				}
				// R-C18.2
				if sd, ok := in.(*ssa.Send); ok && core.PathOf(sd.Chan).HasFields("incoming") {
					nSend++
					s := li.Before[in]
					construct := fmt.Sprintf("%s send#%d on incoming", name, nSend)
					r.Check(s == core.LRead, "R-C18.2", construct+" lock", p.Pos(sd.Pos()), "inside the read-locked region", "send on incoming while holding "+s.String()+" (Close may close the channel concurrently: send on closed channel panics)")
					gOpen := core.FlagClear("l.closed", func(pp core.Path) bool { return pp.HasFields("closed") })
					res := core.CutReach(p, fn, gOpen, b)
					r.CutOb(p, "R-C18.2", construct+" after closed==false", p.Pos(sd.Pos()), res, gOpen)
					okRegion := sameRegion(fn, b, li, gOpen)
					r.Check(okRegion, "R-C18.2", construct+" same locked region as the test", p.Pos(sd.Pos()), "flag tested and send performed under one read lock", "the read lock is released between testing closed and sending")
				}
				// R-C18.2 (delegated): the channel and the flag value are handed to a package-local free function that
				// performs the send; the call site supplies the lock state and the flag load, the helper the guard
				if cc, ok := in.(*ssa.Call); ok {
					if h := cc.Common().StaticCallee(); h != nil && h.Pkg == fn.Pkg && h.Signature.Recv() == nil && len(h.Blocks) > 0 && !ast.IsExported(h.Name()) && len(h.Params) == len(cc.Call.Args) {
						chAt, flagAt := -1, -1
						for i, a := range cc.Call.Args {
							if _, isCh := a.Type().Underlying().(*types.Chan); isCh && core.PathOf(a).HasFields("incoming") {
								chAt = i
							}
							if ld, isLd := core.Strip(a).(*ssa.UnOp); isLd && ld.Op == token.MUL && core.PathOf(ld).HasFields("closed") {
								flagAt = i
							}
						}
						for _, hb := range h.Blocks {
							for _, hin := range hb.Instrs {
								sd, isSend := hin.(*ssa.Send)
								if !isSend || chAt < 0 || core.Strip(sd.Chan) != ssa.Value(h.Params[chAt]) {
									continue
								}
								nSend++
								s := li.Before[in]
								construct := fmt.Sprintf("%s send#%d on incoming (in %s)", name, nSend, h.Name())
								r.Check(s == core.LRead, "R-C18.2", construct+" lock", p.Pos(cc.Pos()), "the delegating call is inside the read-locked region", "send on incoming while holding "+s.String()+" (Close may close the channel concurrently: send on closed channel panics)")
								if flagAt < 0 {
									// the flag is tested by the caller: the delegating call is the send
									gOpen := core.FlagClear("l.closed", func(pp core.Path) bool { return pp.HasFields("closed") })
									res := core.CutReach(p, fn, gOpen, b)
									r.CutOb(p, "R-C18.2", construct+" after closed==false", p.Pos(cc.Pos()), res, gOpen)
									r.Check(sameRegion(fn, b, li, gOpen), "R-C18.2", construct+" same locked region as the test", p.Pos(cc.Pos()), "flag tested and send delegated under one read lock", "the read lock is released between testing closed and the delegated send")
									continue
								}
								fp := ssa.Value(h.Params[flagAt])
								gOpen := core.Guard{Name: "NotFlag(l.closed)", Match: func(cond ssa.Value) (int, bool) {
									if cond == fp {
										return 1, true
									}
									return 0, false
								}}
								res := core.CutReach(p, h, gOpen, hb)
								r.CutOb(p, "R-C18.2", construct+" after closed==false", p.Pos(sd.Pos()), res, gOpen)
								// same region: the flag is loaded under the read lock in the block of the call and the lock is held
								// at every instruction from the load to the call
								ld := core.Strip(cc.Call.Args[flagAt]).(*ssa.UnOp)
								okRegion := ld.Block() == b && li.Before[ld] == core.LRead
								seen := false
								for _, x := range b.Instrs {
									if x == ssa.Instruction(ld) {
										seen = true
									}
									if seen && li.Before[x] != core.LRead {
										okRegion = false
									}
									if x == in {
										break
									}
								}
								r.Check(okRegion, "R-C18.2", construct+" same locked region as the test", p.Pos(cc.Pos()), "flag loaded and send delegated under one read lock", "the read lock is released between loading closed and the delegated send")
							}
						}
					}
				}
				// R-C18.3
				if cc, ok := in.(*ssa.Call); ok && core.CalleeName(cc.Common()) == "builtin:close" && core.PathOf(cc.Call.Args[0]).HasFields("incoming") {
					nClose++
					s := li.Before[in]
					inOnce := false
					if fn.Parent() != nil {
						for _, dc := range callsNamed(fn.Parent(), "(*sync.Once).Do") {
							if fnValue(dc.Call.Args[1]) == fn && core.PathOf(dc.Call.Args[0]).HasFields("closedOnce") {
								inOnce = true
								// closed = true before the Do call
								setBefore := false
								for _, st := range storesToField(fn.Parent(), mlType, "closed") {
									if bv, ok := core.ConstBool(st.Val); ok && bv {
										if st.Block() == dc.Block() {
											for _, x := range st.Block().Instrs {
												if x == ssa.Instruction(st) {
													setBefore = true
													break
												}
												if x == ssa.Instruction(dc) {
													break
												}
											}
										} else if st.Block().Dominates(dc.Block()) {
											setBefore = true
										}
									}
								}
								r.Check(setBefore, "R-C18.3", name+" closed=true before closing the channel", p.Pos(cc.Pos()), "flag set first", "the channel is closed before the closed flag is set: a sender that passed the flag test panics")
							}
						}
					}
					r.Check(inOnce && s == core.LWrite, "R-C18.3", name+" close(incoming)", p.Pos(cc.Pos()), "inside closedOnce.Do under the write lock", fmt.Sprintf("close(incoming) outside closedOnce.Do or not under the write lock (inOnce=%v, lock=%s)", inOnce, s))
				}
			}
		}
	}
	if nAcc < 2 || nSend < 1 || nClose != 1 {
		r.Unk("R-C18.1", "instance floor", "", fmt.Sprintf("closed accesses=%d (want >=2), sends=%d (want >=1), close(incoming)=%d (want 1)", nAcc, nSend, nClose))
	}

	// R-C18.4
	if Cl := c.need("R-C18.4", "net", "(*MultiplexingListener).Close"); Cl != nil {
		var drain, lock ssa.Instruction
		for _, ci := range core.AllCalls(Cl) {
			n := core.CalleeName(ci.Common())
			if isDrain(c, ci.Common()) && drain == nil {
				drain = ci
			}
			if strings.HasSuffix(n, "sync.RWMutex).Lock") && lock == nil {
				lock = ci
			}
		}
		ok := false
		if drain != nil && lock != nil {
			if drain.Block() == lock.Block() {
				for _, in := range drain.Block().Instrs {
					if in == drain {
						ok = true
						break
					}
					if in == lock {
						break
					}
				}
			} else {
				ok = drain.Block().Dominates(lock.Block())
			}
		}
		r.Check(ok, "R-C18.4", "net.(*MultiplexingListener).Close drain before Lock", p.Pos(Cl.Pos()), "drainConnections() precedes closedMutex.Lock()", "Close takes the write lock before starting the drain: a sender blocked on the unbuffered channel holds the read lock forever and Close never returns")
		// R-C18.9: no return of Close skips the three closing steps
		steps := map[string]*ssa.BasicBlock{}
		for _, site := range core.SplitFind(Cl, nil, func(in ssa.Instruction) bool {
			switch x := in.(type) {
			case ssa.CallInstruction:
				n := core.CalleeName(x.Common())
				return isDrain(c, x.Common()) || strings.HasSuffix(n, "sync.Once).Do")
			case *ssa.Store:
				w, isF := core.IsFieldAccess(x, "net.MultiplexingListener", "closed")
				return isF && w
			}
			return false
		}) {
			// the step as seen from Close: the call that leads to it when it lives in a helper
			blk := site.Instr.Block()
			if len(site.Chain) > 0 {
				blk = site.Chain[0].Block()
			}
			switch x := site.Instr.(type) {
			case ssa.CallInstruction:
				if isDrain(c, x.Common()) {
					steps["drain started"] = blk
				} else {
					steps["incoming closed via closedOnce"] = blk
				}
			case *ssa.Store:
				steps["closed = true"] = blk
			}
		}
		for _, step := range []string{"drain started", "closed = true", "incoming closed via closedOnce"} {
			blk := steps[step]
			if blk == nil {
				r.Bad("R-C18.9", "net.(*MultiplexingListener).Close step: "+step, p.Pos(Cl.Pos()), "Close does not perform this step")
				continue
			}
			var skipping []string
			for _, ret := range core.Returns(Cl) {
				if reachFrom(Cl.Blocks[0], map[*ssa.BasicBlock]bool{blk: true})[ret.Block()] && ret.Block() != blk {
					skipping = append(skipping, p.Pos(ret.Pos()))
				}
			}
			r.Check(len(skipping) == 0, "R-C18.9", "net.(*MultiplexingListener).Close step: "+step, p.Pos(Cl.Pos()), "on every path to every return", "a return of Close ("+strings.Join(skipping, ", ")+") is reachable without this step: senders blocked on the channel and their connections are stranded")
		}
		// the drain goroutine is actually spawned under drainSpawned.Do and cancel is called
		if D := c.need("R-C18.4", "net", "(*MultiplexingListener).drainConnections"); D != nil {
			spawn := false
			for _, dc := range callsNamed(D, "(*sync.Once).Do") {
				if cf := fnValue(dc.Call.Args[1]); cf != nil {
					for _, b := range cf.Blocks {
						for _, in := range b.Instrs {
							if _, isGo := in.(*ssa.Go); isGo {
								spawn = true
							}
						}
					}
				}
			}
			r.Check(spawn, "R-C18.4", "net.(*MultiplexingListener).drainConnections spawns the drain goroutine", p.Pos(D.Pos()), "go func(){ for in := range incoming {...} } under drainSpawned.Do", "no drain goroutine is started")
		}
	}

	c18Ownership(c)

	// R-C18.7
	if A := c.need("R-C18.7", "net", "(*MultiplexingListener).Accept"); A != nil {
		n := 0
		for i, ret := range core.Returns(A) {
			if !core.IsNilConst(ret.Results[0]) {
				continue
			}
			n++
			r.Check(core.IsGlobalLoad(ret.Results[1], "net.ErrClosed"), "R-C18.7", fmt.Sprintf("net.(*MultiplexingListener).Accept nil-connection return#%d", i), p.Pos(ret.Pos()),
				"reports net.ErrClosed itself", "a closed listener is reported with something other than the net.ErrClosed sentinel (errors.Is(err, net.ErrClosed) fails, gRPC-style servers spin)")
		}
		if n < 2 {
			r.Unk("R-C18.7", "net.(*MultiplexingListener).Accept closure returns", p.Pos(A.Pos()), "fewer than two nil-connection returns found")
		}
		// the select's context-done arms reach only such returns
		nSel := 0
		for _, b := range A.Blocks {
			for _, in := range b.Instrs {
				sel, ok := in.(*ssa.Select)
				if !ok {
					continue
				}
				nSel++
				for si, stt := range sel.States {
					dc, _ := core.CallResult(stt.Chan)
					if dc == nil || !dc.Common().IsInvoke() || dc.Common().Method.Name() != "Done" {
						continue
					}
					idx := extractOf2(sel, 0)
					gArm := core.Guard{Name: fmt.Sprintf("select index == %d", si), Match: func(cond ssa.Value) (int, bool) {
						bo, ok := cond.(*ssa.BinOp)
						if !ok || bo.X != idx {
							return 0, false
						}
						if k, ok := core.ConstInt(bo.Y); ok && int(k) == si && bo.Op.String() == "==" {
							return 0, true
						}
						return 0, false
					}}
					// from the arm, only (nil, ErrClosed) returns
					for _, tb := range A.Blocks {
						ifi, isIf := tb.Instrs[len(tb.Instrs)-1].(*ssa.If)
						if !isIf {
							continue
						}
						s, m := core.MatchCond(gArm, ifi.Cond, nil)
						if !m {
							continue
						}
						bad := ""
						for x := range reachFrom(tb.Succs[s], nil) {
							if ret, ok := x.Instrs[len(x.Instrs)-1].(*ssa.Return); ok {
								if !core.IsNilConst(ret.Results[0]) || !core.IsGlobalLoad(ret.Results[1], "net.ErrClosed") {
									bad = p.Pos(ret.Pos())
								}
							}
						}
						r.Check(bad == "", "R-C18.7", fmt.Sprintf("net.(*MultiplexingListener).Accept context-done arm of select#%d", nSel), p.Pos(sel.Pos()), "returns (nil, net.ErrClosed)", "a cancelled listener can still return a connection or a different error: "+bad)
					}
				}
			}
		}
	}
}

// connOfRecv: v denotes the conn field of the received splitConn value held
// in slot (an Alloc the received value was stored to) or extracted from it.
// connBase: instruction consumes the connection denoted by isAlias: Close on
// it, or a send of a splitConn carrying it.
func connBase(in ssa.Instruction, isAlias func(ssa.Value) bool) bool {
	return isCloseOf(in, isAlias) || sendsConn(in, isAlias)
}

func c18Ownership(c *Ctx) {
	p, r := c.P, c.R
	// Accept
	if A := c.need("R-C18.5", "net", "(*MultiplexingListener).Accept"); A != nil {
		var slot *ssa.Alloc
		for _, b := range A.Blocks {
			for _, in := range b.Instrs {
				if al, ok := in.(*ssa.Alloc); ok && strings.HasSuffix(al.Type().String(), "splitConn") {
					slot = al
				}
			}
		}
		isAlias := func(v ssa.Value) bool {
			v = core.Strip(v)
			vp := core.PathOf(v)
			if slot != nil && vp.HasFields("conn") && (vp.Root == ssa.Value(slot) || (core.SingleStore(slot) != nil && vp.Root == core.Strip(core.SingleStore(slot)))) {
				return true
			}
			// native.Conn where native = in.conn.(*protocol.Conn)
			if vp.HasFields("Conn") {
				if ex, ok := vp.Root.(*ssa.Extract); ok {
					if ta, ok := ex.Tuple.(*ssa.TypeAssert); ok {
						tp := core.PathOf(ta.X)
						return slot != nil && tp.HasFields("conn") && (tp.Root == ssa.Value(slot) || (core.SingleStore(slot) != nil && tp.Root == core.Strip(core.SingleStore(slot))))
					}
				}
			}
			return false
		}
		// start: the block reached when ok && !IsNil(in.conn)
		gNonNil := core.Guard{Name: "received a connection", Match: func(cond ssa.Value) (int, bool) {
			if cc, ok := cond.(*ssa.Call); ok && core.CalleeName(cc.Common()) == mod+".IsNil" && isAlias(cc.Call.Args[0]) {
				return 1, true
			}
			return 0, false
		}}
		var start *ssa.BasicBlock
		for _, b := range A.Blocks {
			if ifi, ok := b.Instrs[len(b.Instrs)-1].(*ssa.If); ok {
				if s, m := core.MatchCond(gNonNil, ifi.Cond, nil); m {
					start = b.Succs[s]
				}
			}
		}
		if start == nil || slot == nil {
			r.Unk("R-C18.5", "net.(*MultiplexingListener).Accept received connection", p.Pos(A.Pos()), "cannot find the non-nil test of the received connection")
		} else {
			res := core.Ownership(p, core.OwnSpec{Fn: A, Start: start,
				Consume: func(in ssa.Instruction) bool {
					if isCloseOf(in, isAlias) {
						return true
					}
					if ret, ok := in.(*ssa.Return); ok {
						if isAlias(ret.Results[0]) {
							return true
						}
						// "return helper(in)": the helper must hand back the connection (or its embedded one) on every path
						if vals, subst, h := helperResult(ret.Results[0]); h != nil && len(vals) > 0 {
							all := true
							core.WithSubst(subst, func() {
								for _, rv := range vals {
									if !isAlias(rv) {
										all = false
									}
								}
							})
							return all
						}
					}
					return core.CallConsumes(p, in, isAlias, connBase, 1)
				}})
			// a Return that consumes is counted before the end check: handled since Consume runs first
			sort.Strings(res.Leaks)
			r.Check(len(res.Leaks) == 0 && len(res.Doubles) == 0 && res.Ends > 0, "R-C18.5", "net.(*MultiplexingListener).Accept received connection returned or closed", p.Pos(A.Pos()),
				fmt.Sprintf("%d exits, each returning or closing the connection exactly once", res.Ends), "lost on: "+strings.Join(res.Leaks, "; ")+" / twice on: "+strings.Join(res.Doubles, "; "))
		}
	}
	// IngressConn
	if I := c.need("R-C18.5", "net", "(*MultiplexingListener).IngressConn"); I != nil {
		connP := ssa.Value(I.Params[1])
		isAlias := func(v ssa.Value) bool { return core.Strip(v) == connP }
		res := core.Ownership(p, core.OwnSpec{Fn: I, Start: I.Blocks[0], Consume: func(in ssa.Instruction) bool {
			return connBase(in, isAlias) || core.CallConsumes(p, in, isAlias, connBase, 1)
		}})
		r.Check(len(res.Leaks) == 0 && len(res.Doubles) == 0 && res.Ends > 0, "R-C18.5", "net.(*MultiplexingListener).IngressConn sends or closes", p.Pos(I.Pos()),
			"every path sends the connection or closes it, once", "lost on: "+strings.Join(res.Leaks, "; ")+" / twice on: "+strings.Join(res.Doubles, "; "))
	}
	// IngressListener goroutine
	if IL := c.need("R-C18.5", "net", "(*MultiplexingListener).IngressListener"); IL != nil && len(IL.AnonFuncs) == 1 {
		G := IL.AnonFuncs[0]
		r.Fn(core.FuncName(G))
		var acc *ssa.Call
		for _, ci := range core.AllCalls(G) {
			if ci.Common().IsInvoke() && ci.Common().Method.Name() == "Accept" {
				acc, _ = ci.(*ssa.Call)
			}
		}
		if acc == nil {
			r.Unk("R-C18.5", core.FuncName(G)+" accept", p.Pos(G.Pos()), "no Accept call")
		} else if okT, succ, _, _ := errTestEdges(acc); okT {
			conn := extractOf(acc, 0)
			isAlias := func(v ssa.Value) bool { return core.Strip(v) == conn }
			header := acc.Block()
			res := core.Ownership(p, core.OwnSpec{Fn: G, Start: succ,
				Consume: func(in ssa.Instruction) bool {
					return connBase(in, isAlias) || core.CallConsumes(p, in, isAlias, connBase, 1)
				},
				End: func(from, to *ssa.BasicBlock) bool { return to == header }})
			r.Check(len(res.Leaks) == 0 && len(res.Doubles) == 0 && res.Ends > 0, "R-C18.5", core.FuncName(G)+" sends or closes", p.Pos(acc.Pos()),
				"every accepted connection is sent or closed, once", "lost on: "+strings.Join(res.Leaks, "; ")+" / twice on: "+strings.Join(res.Doubles, "; "))
		}
	}
	// drain goroutine: every non-nil received connection is closed
	if D := c.need("R-C18.5", "net", "(*MultiplexingListener).drainConnections"); D != nil {
		var body *ssa.Function
		var walk func(f *ssa.Function)
		walk = func(f *ssa.Function) {
			for _, af := range f.AnonFuncs {
				for _, b := range af.Blocks {
					for _, in := range b.Instrs {
						if u, ok := in.(*ssa.UnOp); ok && u.Op.String() == "<-" {
							body = af
						}
					}
				}
				walk(af)
			}
			// "go drainFn(l.incoming)": a named function started as the goroutine
			for _, b := range f.Blocks {
				for _, in := range b.Instrs {
					if g, ok := in.(*ssa.Go); ok {
						if h := core.ModuleCallee(g.Common()); h != nil && h.Parent() == nil {
							for _, hb := range h.Blocks {
								for _, hin := range hb.Instrs {
									if u, ok := hin.(*ssa.UnOp); ok && u.Op.String() == "<-" {
										body = h
									}
								}
							}
						}
					}
				}
			}
		}
		walk(D)
		if body == nil {
			r.Unk("R-C18.5", "drain goroutine", p.Pos(D.Pos()), "no goroutine receiving from incoming found")
		} else {
			r.Fn(core.FuncName(body))
			okDrain := false
			for _, b := range body.Blocks {
				ifi, ok := b.Instrs[len(b.Instrs)-1].(*ssa.If)
				if !ok {
					continue
				}
				g := core.NilTest("in.conn non-nil", core.AnyRootField("conn"), false)
				s, m := core.MatchCond(g, ifi.Cond, nil)
				if !m {
					continue
				}
				// every path from the non-nil edge back to the receive closes it
				var recvBlock *ssa.BasicBlock
				for _, bb := range body.Blocks {
					for _, in := range bb.Instrs {
						if u, ok := in.(*ssa.UnOp); ok && u.Op.String() == "<-" {
							recvBlock = bb
						}
					}
				}
				res := core.Ownership(p, core.OwnSpec{Fn: body, Start: b.Succs[s],
					Consume: func(in ssa.Instruction) bool {
						return isCloseOf(in, func(v ssa.Value) bool { return core.PathOf(v).HasFields("conn") })
					},
					End: func(from, to *ssa.BasicBlock) bool { return to == recvBlock }})
				okDrain = len(res.Leaks) == 0 && len(res.Doubles) == 0 && res.Ends > 0
			}
			r.Check(okDrain, "R-C18.5", core.FuncName(body)+" closes every drained connection", p.Pos(body.Pos()), "each received non-nil connection is closed before the next receive", "the drain goroutine drops a received connection without closing it")
		}
	}
}

// sendsConn: a send whose payload struct carries the aliased connection.
func sendsConn(in ssa.Instruction, isAlias func(ssa.Value) bool) bool {
	sd, ok := in.(*ssa.Send)
	if !ok {
		return false
	}
	u, ok := sd.X.(*ssa.UnOp)
	if !ok {
		return false
	}
	al, ok := u.X.(*ssa.Alloc)
	if !ok {
		return false
	}
	for _, fs := range fieldStores(al) {
		if fs.Field == "conn" && isAlias(fs.Val) {
			return true
		}
	}
	return false
}

// isDrain: the call invokes the listener's drain starter (resolved as an anchor, rename-tolerant).
func isDrain(c *Ctx, cc *ssa.CallCommon) bool {
	f := c.P.Func("net", "(*MultiplexingListener).drainConnections")
	if f == nil {
		f, _ = c.P.FuncRenamed("net", "(*MultiplexingListener).drainConnections")
	}
	return f != nil && cc.StaticCallee() == f
}

// sameRegion: between every test of the closed flag (guard g) and block b no instruction runs without the
// read lock, and the flag itself is loaded under it.
func sameRegion(fn *ssa.Function, b *ssa.BasicBlock, li *core.LockInfo, gOpen core.Guard) bool {
	okRegion := true
	for _, tb := range fn.Blocks {
		ifi, isIf := tb.Instrs[len(tb.Instrs)-1].(*ssa.If)
		if !isIf {
			continue
		}
		if _, m := core.MatchCond(gOpen, ifi.Cond, nil); !m {
			continue
		}
		if ld, isLd := ifi.Cond.(*ssa.UnOp); isLd && li.Before[ld] != core.LRead {
			okRegion = false
		}
		between := reachFrom(tb.Succs[1], map[*ssa.BasicBlock]bool{b: true})
		between[tb.Succs[1]] = true
		for bb := range between {
			if !reachFrom(bb, nil)[b] && bb != b {
				continue
			}
			for _, in2 := range bb.Instrs {
				if li.Before[in2] != core.LRead && bb != b {
					okRegion = false
				}
			}
		}
	}
	return okRegion
}
