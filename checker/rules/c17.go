package rules

import (
	"fmt"
	"go/token"
	"sort"
	"strings"

	"nechk/core"

	"golang.org/x/tools/go/ssa"
)

func init() { All["C17"] = c17; All["C18"] = c18 }

const netPkg = mod + "/net"

// connCloseOn: instruction is <alias>.Close() (interface invoke or method).
func isCloseOf(in ssa.Instruction, isAlias func(ssa.Value) bool) bool {
	ci, ok := in.(ssa.CallInstruction)
	if !ok {
		return false
	}
	c := ci.Common()
	if c.IsInvoke() {
		return c.Method.Name() == "Close" && isAlias(c.Value)
	}
	if fn := c.StaticCallee(); fn != nil && fn.Name() == "Close" && len(c.Args) > 0 {
		return isAlias(c.Args[0])
	}
	return false
}

func c17(c *Ctx) {
	p, r := c.P, c.R
	r.Rule("R-C17.1", "in SplitListener.Start every IngressConn whose receiver comes from the registry by client protocol or by the authenticated non-specific name is cut by ContainsKnownAlpnProto(negotiated)=true and HasPrefix(negotiated, fetch prefix)=false, with negotiated = the TLS state of the accepted protocol.Conn; the IngressConn on the unauthenticated entry is reachable only from the false edge of the first; receivers never come from the other class's registry key")
	r.Rule("R-C17.2", "every connection returned by the base Accept is, on every path of the loop body, ingressed to exactly one sub-listener or closed exactly once (ownership dataflow)")
	r.Rule("R-C17.3", "Start defers a Range over the registry that closes every sub-listener; both non-temporary exits cancel the listener's context before returning")
	r.Rule("R-C17.6", "a failure of the base listener ends the accept loops: in InterceptingListener.Accept no return on the failure edge of l.baseLn.Accept() carries an error produced by temperror.New (SplitListener.Start retries on Temporary() errors and only closes its sub-listeners on a non-temporary one)")
	r.Rule("R-C17.4", "MultiplexingListener.Accept returns the embedded *tls.Conn only if nativeConns is set and false and the value is a *protocol.Conn; otherwise the received value itself")
	r.Rule("R-C17.5", "GetListener publishes through LoadOrStore and closes the loser; every value stored in the registry is a *MultiplexingListener (discharges the type assertions on registry values)")
	r.NotDecided = append(r.NotDecided, "behaviour of connections already in flight at close", "assumption A3 (base TLS configuration lists no library-prefixed protocol)")
	r.Assume = append(r.Assume, "A3: the application's base TLS configuration does not list library-prefixed protocol names")

	c17BaseFailure(c)
	// "delivered to a sub-listener, otherwise closed" needs the hand-over itself to
	// deliver or close: C18's ownership rule for IngressConn / IngressListener, evaluated here too
	r.Rule("R-C18.5", "ownership in the multiplexing listener: IngressConn and the IngressListener goroutine either send the connection or close it on every path; Accept returns or closes what it received (C18's rule, evaluated here: Start hands every routed connection to IngressConn)")
	c18Ownership(c)
	S := c.need("R-C17.1", "net", "(*SplitListener).Start")
	if S == nil {
		return
	}
	name := "net.(*SplitListener).Start"
	fetchPrefix := c.rootConst("FetchNodeCredsNextProtoV1Prefix")
	accs := callsNamed(S, "(*"+mod+"/protocol.InterceptingListener).Accept")
	if len(accs) != 1 {
		r.Unk("R-C17.1", name+" base accept", p.Pos(S.Pos()), fmt.Sprintf("%d base Accept calls", len(accs)))
		return
	}
	acc := accs[0]
	conn := extractOf(acc, 0)
	// protoConn := conn.(*protocol.Conn)
	var protoConn ssa.Value
	for _, b := range S.Blocks {
		for _, in := range b.Instrs {
			if ta, ok := in.(*ssa.TypeAssert); ok && ta.X == conn && ta.CommaOk {
				protoConn = extractOf2(ta, 0)
			}
		}
	}
	if protoConn == nil {
		r.Unk("R-C17.1", name+" protocol.Conn assertion", p.Pos(S.Pos()), "the accepted connection is not asserted to *protocol.Conn")
		return
	}
	isNeg := func(v ssa.Value) bool {
		np := core.PathOf(v)
		if !np.HasFields("NegotiatedProtocol") {
			return false
		}
		cs, _ := core.CallResult(core.Strip(np.Root))
		if cs == nil {
			if al, ok := np.Root.(*ssa.Alloc); ok {
				if sv := core.SingleStore(al); sv != nil {
					cs, _ = core.CallResult(sv)
				}
			}
		}
		if cs == nil || core.CalleeName(cs.Common()) != "(*crypto/tls.Conn).ConnectionState" {
			return false
		}
		tp := core.PathOf(cs.Call.Args[0])
		return tp.Root == protoConn && tp.HasFields("Conn")
	}
	gKnown := core.BoolCall("ContainsKnownAlpnProto(negotiated)", func(x *ssa.Call) bool {
		if core.CalleeName(x.Common()) != mod+".ContainsKnownAlpnProto" {
			return false
		}
		elems, ok := sliceLiteralElems(x.Call.Args[0])
		return ok && len(elems) == 1 && isNeg(elems[0])
	})
	gUnknown := core.Guard{Name: "Not(ContainsKnownAlpnProto(negotiated))", Match: func(cond ssa.Value) (int, bool) { s, ok := gKnown.Match(cond); return 1 - s, ok }}
	gNotFetch := core.Guard{Name: "Not(HasPrefix(negotiated, fetch prefix))", Match: func(cond ssa.Value) (int, bool) {
		cc, ok := cond.(*ssa.Call)
		if !ok || core.CalleeName(cc.Common()) != "strings.HasPrefix" {
			return 0, false
		}
		s, isC := core.ConstString(cc.Call.Args[1])
		if !isC || s != fetchPrefix || !isNeg(cc.Call.Args[0]) {
			return 0, false
		}
		return 1, true
	}}
	gComplete := core.Guard{Name: "HandshakeComplete", Match: func(cond ssa.Value) (int, bool) {
		if core.PathOf(cond).HasFields("HandshakeComplete") {
			return 0, true
		}
		return 0, false
	}}
	ingSites := core.DeepCalls(S, core.MaxSummaryDepth, "(*"+netPkg+".MultiplexingListener).IngressConn")
	if len(ingSites) == 0 {
		r.Unk("R-C17.1", name+" IngressConn calls", p.Pos(S.Pos()), "none")
	}
	isConn := func(v ssa.Value) bool {
		v = core.Strip(v)
		if v == conn || v == protoConn {
			return true
		}
		pp := core.PathOf(v)
		return (pp.Root == conn || pp.Root == protoConn) && pp.HasFields("Conn")
	}
	for i, site := range ingSites {
		ic := site.Instr.(*ssa.Call)
		r.Fn(core.FuncName(site.Fn))
		var keys []string
		okArg := false
		site.In(func() {
			keys = listenerSources(p, ic.Call.Args[0], isConn, 0)
			okArg = isConn(ic.Call.Args[1])
		})
		sort.Strings(keys)
		keys = dedup(keys)
		kstr := strings.Join(keys, ",")
		construct := fmt.Sprintf("%s IngressConn#%d receiver{%s}", name, i, kstr)
		r.Check(okArg, "R-C17.1", construct+" argument", p.Pos(ic.Pos()), "ingresses the connection just accepted", "ingresses a value other than the connection just accepted")
		unauth := kstr == "Load:__UNAUTH__"
		authOnly := len(keys) > 0
		for _, k := range keys {
			if k != "Load:__AUTH__" && k != "Range:key==client-protocol" {
				authOnly = false
			}
		}
		switch {
		case unauth:
			res := core.CutDeep(p, S, gUnknown, site)
			r.CutOb(p, "R-C17.1", construct+" only for non-library protocols", p.Pos(ic.Pos()), res, gUnknown)
		case authOnly:
			for _, g := range []core.Guard{gKnown, gNotFetch, gComplete} {
				res := core.CutDeep(p, S, g, site)
				r.CutOb(p, "R-C17.1", construct+" guard="+g.Name, p.Pos(ic.Pos()), res, g)
			}
		default:
			r.Bad("R-C17.1", construct, p.Pos(ic.Pos()), "the receiving sub-listener mixes the authenticated and unauthenticated registry classes or comes from an unreviewed source")
		}
	}

	// R-C17.2 ownership
	okT, succ, _, _ := errTestEdges(acc)
	if !okT {
		r.Unk("R-C17.2", name+" accept error test", p.Pos(acc.Pos()), "not found")
	} else {
		base := func(in ssa.Instruction, isAlias func(ssa.Value) bool) bool {
			if isCloseOf(in, isAlias) {
				return true
			}
			if cc, ok := in.(*ssa.Call); ok && strings.HasSuffix(core.CalleeName(cc.Common()), "MultiplexingListener).IngressConn") {
				return isAlias(cc.Call.Args[1])
			}
			return false
		}
		header := acc.Block()
		res := core.Ownership(p, core.OwnSpec{
			Fn: S, Start: succ,
			Consume: func(in ssa.Instruction) bool {
				return base(in, isConn) || core.CallConsumes(p, in, isConn, base, 1)
			},
			End: func(from, to *ssa.BasicBlock) bool { return to == header },
		})
		sort.Strings(res.Leaks)
		sort.Strings(res.Doubles)
		r.Check(len(res.Leaks) == 0 && len(res.Doubles) == 0 && res.Ends > 0, "R-C17.2", name+" connection handled exactly once", p.Pos(acc.Pos()),
			fmt.Sprintf("%d loop exits, each after exactly one Close or IngressConn", res.Ends),
			"connection neither ingressed nor closed on: "+strings.Join(res.Leaks, "; ")+" / handled twice on: "+strings.Join(res.Doubles, "; "))
	}

	// R-C17.3
	okDefer := false
	for _, b := range S.Blocks {
		for _, in := range b.Instrs {
			d, ok := in.(*ssa.Defer)
			if !ok || !b.Dominates(acc.Block()) {
				continue
			}
			df := fnValue(d.Call.Value)
			if df == nil {
				continue
			}
			for _, rc := range callsNamed(df, "(*sync.Map).Range") {
				if !core.PathOf(rc.Call.Args[0]).HasFields("babyListeners") {
					continue
				}
				if cf := fnValue(rc.Call.Args[1]); cf != nil {
					closes := false
					for _, cc := range callsNamed(cf, "(*"+netPkg+".MultiplexingListener).Close") {
						if ta, ok := core.Strip(cc.Call.Args[0]).(*ssa.TypeAssert); ok && ta.X == ssa.Value(cf.Params[1]) {
							closes = true
						}
					}
					allTrue := true
					for _, ret := range core.Returns(cf) {
						if bv, ok := core.ConstBool(ret.Results[0]); !ok || !bv {
							allTrue = false
						}
					}
					okDefer = closes && allTrue
				}
			}
		}
	}
	r.Check(okDefer, "R-C17.3", name+" deferred close of all sub-listeners", p.Pos(S.Pos()), "defer Range(registry){Close}; callback returns true on every path", "Start does not close every registered sub-listener when it stops")
	cancelBlocks := map[*ssa.BasicBlock]bool{}
	for _, ci := range core.AllCalls(S) {
		if core.CalleeName(ci.Common()) == "field:net.SplitListener.cancel" {
			cancelBlocks[ci.Block()] = true
		}
	}
	for i, ret := range core.Returns(S) {
		if ret.Block().Comment == "recover" {
			continue
		}
		reached := reachFrom(S.Blocks[0], cancelBlocks)[ret.Block()] && !cancelBlocks[ret.Block()]
		r.Check(!reached, "R-C17.3", fmt.Sprintf("%s return#%d cancels first", name, i), p.Pos(ret.Pos()), "l.cancel() on every path to this return (GetListener then reports closed)", "Start can return without cancelling the listener context: GetListener keeps handing out live-looking sub-listeners")
	}

	// R-C17.4
	if A := c.need("R-C17.4", "net", "(*MultiplexingListener).Accept"); A != nil {
		aname := "net.(*MultiplexingListener).Accept"
		// the returns that decide what is handed out: Accept's own, or those of a
		// helper whose result Accept returns
		type retSite struct {
			fn    *ssa.Function
			ret   *ssa.Return
			subst map[ssa.Value]ssa.Value
		}
		var sites []retSite
		for _, ret := range core.Returns(A) {
			if vals, subst, h := helperResult(ret.Results[0]); h != nil && len(vals) > 0 {
				r.Fn(core.FuncName(h))
				for _, hr := range core.Returns(h) {
					sites = append(sites, retSite{h, hr, subst})
				}
				continue
			}
			sites = append(sites, retSite{A, ret, nil})
		}
		n := 0
		for i, st := range sites {
			core.WithSubst(st.subst, func() {
				fn, ret := st.fn, st.ret
				// the listener is Accept's receiver (a helper's parameters stand for Accept's values)
				recv := ssa.Value(A.Params[0])
				v := core.Strip(core.ReturnOperand(ret, 0))
				if core.IsNilConst(v) {
					return
				}
				vp := core.PathOf(v)
				if vp.HasFields("Conn") {
					n++
					gNative := core.Guard{Name: "*l.nativeConns == false", Match: func(cond ssa.Value) (int, bool) {
						u, ok := cond.(*ssa.UnOp)
						if !ok || u.Op != token.MUL {
							return 0, false
						}
						ip := core.PathOf(u.X)
						if ip.HasFields("nativeConns") && (ip.Root == recv || ip.Root == core.Strip(recv)) {
							return 1, true
						}
						return 0, false
					}}
					gSet := core.NilTest("l.nativeConns non-nil", func(pp core.Path) bool {
						return pp.HasFields("nativeConns") && (pp.Root == recv || pp.Root == core.Strip(recv))
					}, false)
					gIsProto := core.Guard{Name: "value is *protocol.Conn", Match: func(cond ssa.Value) (int, bool) {
						ex, ok := cond.(*ssa.Extract)
						if !ok || ex.Index != 1 {
							return 0, false
						}
						ta, ok := ex.Tuple.(*ssa.TypeAssert)
						if !ok || !namedType(ta.AssertedType, mod+"/protocol", "Conn") {
							return 0, false
						}
						return 0, true
					}}
					for _, g := range []core.Guard{gSet, gNative, gIsProto} {
						res := core.CutReach(p, fn, g, ret.Block())
						r.CutOb(p, "R-C17.4", fmt.Sprintf("%s return#%d (stripped) guard=%s", aname, i, g.Name), p.Pos(ret.Pos()), res, g)
					}
					return
				}
				r.Check(vp.HasFields("conn"), "R-C17.4", fmt.Sprintf("%s return#%d value", aname, i), p.Pos(ret.Pos()), "the received connection unchanged", "returns something other than the received connection or its embedded TLS connection")
			})
		}
		if n == 0 {
			r.Bad("R-C17.4", aname+" stripped return", p.Pos(A.Pos()), "no return of the embedded *tls.Conn: sub-listeners never hand out plain TLS connections")
		}
	}

	// R-C17.5
	if G := c.need("R-C17.5", "net", "(*SplitListener).GetListener"); G != nil {
		gn := "net.(*SplitListener).GetListener"
		ls := callsNamed(G, "(*sync.Map).LoadOrStore")
		r.Check(len(ls) == 1, "R-C17.5", gn+" publishes through LoadOrStore", p.Pos(G.Pos()), "one LoadOrStore", fmt.Sprintf("%d LoadOrStore calls", len(ls)))
		if len(ls) == 1 {
			loaded := extractOf(ls[0], 1)
			newL := core.Strip(ls[0].Call.Args[2])
			gLoaded := core.Guard{Name: "loaded", Match: func(cond ssa.Value) (int, bool) {
				if cond == loaded {
					return 0, true
				}
				return 0, false
			}}
			// on the loaded edge the new listener is closed and the existing one returned
			closed := false
			for _, cc := range callsNamed(G, "(*"+netPkg+".MultiplexingListener).Close") {
				if core.Strip(cc.Call.Args[0]) == newL {
					res := core.CutReach(p, G, gLoaded, cc.Block())
					closed = !res.Reachable && len(res.Instances) > 0
				}
			}
			r.Check(closed, "R-C17.5", gn+" closes the loser", p.Pos(ls[0].Pos()), "the unused new listener is closed when another was already registered", "a sub-listener that lost the LoadOrStore race is never closed (its context and goroutines leak)")
		}
	}
	nSt := 0
	for _, fn := range p.ModuleFuncs() {
		if fn.Pkg == nil || fn.Pkg.Pkg.Path() != netPkg {
			continue
		}
		for _, cc := range callsNamed(fn, "(*sync.Map).LoadOrStore", "(*sync.Map).Store", "(*sync.Map).Swap") {
			if !core.PathOf(cc.Call.Args[0]).HasFields("babyListeners") {
				continue
			}
			nSt++
			mi, ok := cc.Call.Args[2].(*ssa.MakeInterface)
			r.Check(ok && namedType(mi.X.Type(), netPkg, "MultiplexingListener"), "R-C17.5", "registry value stored in "+core.FuncName(fn), p.Pos(cc.Pos()), "*MultiplexingListener", "a registry value of another type would make Start's type assertions panic")
			ki, ok2 := cc.Call.Args[1].(*ssa.MakeInterface)
			r.Check(ok2 && ki.X.Type().String() == "string", "R-C17.5", "registry key stored in "+core.FuncName(fn), p.Pos(cc.Pos()), "string key", "a non-string registry key would make Start's key assertion panic")
		}
	}
	if nSt == 0 {
		r.Unk("R-C17.5", "registry stores", "", "no store into the sub-listener registry found")
	}
	// R-C17.6: what the base listener hands over (C02's rule on Accept, evaluated here too)
	r.Rule("R-C02.5", "InterceptingListener.Accept returns a connection only after a successful handshake and never on the fetch protocol (C02's rule, evaluated here: the split listener relies on it)")
	c02Accept(c)

	// panic sites of the net package (nothing panics)
	for _, fn := range p.ModuleFuncs() {
		if fn.Pkg == nil && fn.Parent() == nil {
			continue
		}
		pk := fn.Package()
		if pk == nil && fn.Parent() != nil {
			pk = fn.Parent().Package()
		}
		for pf := fn.Parent(); pk == nil && pf != nil; pf = pf.Parent() {
			pk = pf.Package()
		}
		if pk == nil || pk.Pkg.Path() != netPkg {
			continue
		}
		per := map[string]int{}
		for _, s := range core.PanicSites(p, fn) {
			construct := fmt.Sprintf("%s %s %s", core.FuncName(fn), s.Kind, s.Desc)
			per[construct]++
			if per[construct] > 1 {
				construct += fmt.Sprintf(" #%d", per[construct])
			}
			if s.Discharged {
				r.OK("R-C17.5", construct, p.Pos(s.Instr.Pos()), s.Why)
				continue
			}
			if ta, ok := s.Instr.(*ssa.TypeAssert); ok {
				if registryAssert(ta) {
					r.OK("R-C17.5", construct, p.Pos(ta.Pos()), "registry keys are strings and values *MultiplexingListener at every store site")
					continue
				}
			}
			r.Bad("R-C17.5", construct, p.Pos(s.Instr.Pos()), "can panic in the routing loop: "+s.Why)
		}
	}
}

// registryAssert: an unchecked assertion on a value that came out of the
// sub-listener registry (Load / LoadOrStore result, or a Range callback
// parameter) to *MultiplexingListener, or on a Range key to string.
func registryAssert(ta *ssa.TypeAssert) bool {
	isML := namedType(ta.AssertedType, netPkg, "MultiplexingListener")
	isStr := ta.AssertedType.String() == "string"
	switch x := ta.X.(type) {
	case *ssa.Extract:
		if lc, ok := x.Tuple.(*ssa.Call); ok {
			n := core.CalleeName(lc.Common())
			if (n == "(*sync.Map).Load" || n == "(*sync.Map).LoadOrStore") && x.Index == 0 && isRegistry(lc.Call.Args[0], 0) {
				return isML
			}
		}
	case *ssa.Parameter:
		fn := x.Parent()
		if fn.Parent() == nil || len(fn.Params) != 2 {
			return false
		}
		// the closure must be the callback of a Range over the registry
		for _, pf := range []*ssa.Function{fn.Parent(), fn.Parent().Parent()} {
			if pf == nil {
				continue
			}
			for _, rc := range callsNamed(pf, "(*sync.Map).Range") {
				if fnValue(rc.Call.Args[1]) == fn && isRegistry(rc.Call.Args[0], 0) {
					if x == fn.Params[0] {
						return isStr
					}
					return isML
				}
			}
		}
	}
	return false
}

// rangeKeyCondition describes the condition under which the registry Range
// callback cf assigns the found listener (store st): "key==client-protocol"
// when every path to the store passes the test "the registry key equals one
// of the protocols offered by this connection's client" - written as
// k.(string) == <element of L> or slices.Contains(L, k.(string)), with L the
// result of ClientNextProtos() on this connection.
func rangeKeyCondition(p *core.Prog, cf *ssa.Function, st *ssa.Store, isConn func(ssa.Value) bool) string {
	isKey := func(v ssa.Value) bool {
		ta, ok := core.Strip(v).(*ssa.TypeAssert)
		return ok && ta.X == ssa.Value(cf.Params[0])
	}
	isClientProtos := func(v ssa.Value) bool {
		root := core.PathOf(v)
		if len(root.Fields) != 0 {
			return false
		}
		cc, _ := core.CallResult(core.Strip(root.Root))
		return cc != nil && strings.HasSuffix(core.CalleeName(cc.Common()), "protocol.Conn).ClientNextProtos") && isConn(cc.Call.Args[0])
	}
	g := core.Guard{Name: "registry key is one of the client's protocols", Match: func(cond ssa.Value) (int, bool) {
		switch c := cond.(type) {
		case *ssa.BinOp:
			if c.Op != token.EQL && c.Op != token.NEQ {
				return 0, false
			}
			for _, pair := range [][2]ssa.Value{{c.X, c.Y}, {c.Y, c.X}} {
				if !isKey(pair[0]) {
					continue
				}
				if sp, ok := elemOf(core.Strip(pair[1])); ok && isClientProtos(sp.Root) && len(sp.Fields) == 0 {
					if c.Op == token.EQL {
						return 0, true
					}
					return 1, true
				}
			}
		case *ssa.Call:
			if core.CalleeName(c.Common()) == "slices.Contains" && len(c.Call.Args) == 2 && isKey(c.Call.Args[1]) && isClientProtos(c.Call.Args[0]) {
				return 0, true
			}
		}
		return 0, false
	}}
	res := core.CutReach(p, cf, g, st.Block())
	if !res.Reachable && len(res.Instances) > 0 {
		return "key==client-protocol"
	}
	return "unguarded"
}

func dedup(in []string) []string {
	var out []string
	seen := map[string]bool{}
	for _, s := range in {
		if !seen[s] {
			seen[s] = true
			out = append(out, s)
		}
	}
	return out
}

// listenerSources classifies where a *MultiplexingListener value comes from:
// "Load:<constant key>" (registry lookup by a constant name),
// "Range:key==client-protocol" (registry entry whose key equals one of the
// protocols the client of this connection offered), or an "other:" source.
// Helper results are followed with the helper's parameters bound to the
// call's arguments.
func listenerSources(p *core.Prog, v ssa.Value, isConn func(ssa.Value) bool, depth int) []string {
	var keys []string
	seen := map[ssa.Value]bool{}
	var visit func(x ssa.Value)
	follow := func(y ssa.Value) bool {
		if vals, subst, h := helperResult(y); h != nil && depth < core.MaxSummaryDepth {
			core.WithSubst(subst, func() {
				for _, rv := range vals {
					keys = append(keys, listenerSources(p, rv, isConn, depth+1)...)
				}
			})
			return true
		}
		return false
	}
	visit = func(x ssa.Value) {
		x = core.Strip(x)
		if seen[x] {
			return
		}
		seen[x] = true
		switch y := x.(type) {
		case *ssa.Phi:
			for _, e := range y.Edges {
				visit(e)
			}
		case *ssa.TypeAssert:
			visit(y.X)
		case *ssa.Extract:
			if lc, ok := y.Tuple.(*ssa.Call); ok && core.CalleeName(lc.Common()) == "(*sync.Map).Load" {
				if k, ok := core.ConstString(core.Strip(lc.Call.Args[1])); ok {
					keys = append(keys, "Load:"+k)
				} else {
					keys = append(keys, "Load:<non-constant>")
				}
				return
			}
			if ta, ok := y.Tuple.(*ssa.TypeAssert); ok {
				visit(ta.X)
				return
			}
			if follow(y) {
				return
			}
			keys = append(keys, "other:"+core.ValueName(y))
		case *ssa.Call:
			if follow(y) {
				return
			}
			keys = append(keys, "other:"+shortName(core.CalleeName(y.Common())))
		case *ssa.UnOp:
			al, ok := y.X.(*ssa.Alloc)
			if !ok {
				keys = append(keys, "other:"+core.ValueName(y))
				return
			}
			// a local variable, possibly captured: all stores here and in closures
			for _, ref := range *al.Referrers() {
				if st, ok := ref.(*ssa.Store); ok && st.Addr == ssa.Value(al) {
					visit(st.Val)
				}
				mc, ok := ref.(*ssa.MakeClosure)
				if !ok {
					continue
				}
				cf := mc.Fn.(*ssa.Function)
				bind := map[ssa.Value]ssa.Value{}
				for i, fv := range cf.FreeVars {
					bind[fv] = mc.Bindings[i]
				}
				for i, bnd := range mc.Bindings {
					if bnd != ssa.Value(al) {
						continue
					}
					fv := cf.FreeVars[i]
					for _, r2 := range *fv.Referrers() {
						st, ok := r2.(*ssa.Store)
						if !ok || st.Addr != ssa.Value(fv) {
							continue
						}
						if ta, ok := core.Strip(st.Val).(*ssa.TypeAssert); ok {
							if pr, ok := ta.X.(*ssa.Parameter); ok && len(cf.Params) == 2 && pr == cf.Params[1] {
								core.WithSubst(bind, func() {
									keys = append(keys, "Range:"+rangeKeyCondition(p, cf, st, isConn))
								})
								continue
							}
						}
						if core.IsNilConst(st.Val) {
							continue
						}
						keys = append(keys, "closure-other")
					}
				}
			}
		case *ssa.Const:
			if y.Value != nil {
				keys = append(keys, "const")
			}
		default:
			keys = append(keys, "other:"+core.ValueName(x))
		}
	}
	visit(v)
	return keys
}


// c17BaseFailure: R-C17.6.
func c17BaseFailure(c *Ctx) {
	p, r := c.P, c.R
	acc := c.need("R-C17.6", "protocol", "(*InterceptingListener).Accept")
	if acc == nil {
		return
	}
	name := core.FuncName(acc)
	var base *ssa.Call
	for _, ci := range core.AllCalls(acc) {
		if ci.Common().IsInvoke() && ci.Common().Method.Name() == "Accept" && core.PathOf(ci.Common().Value).HasFields("baseLn") {
			base, _ = ci.(*ssa.Call)
		}
	}
	if base == nil {
		r.Unk("R-C17.6", name+" base accept", p.Pos(acc.Pos()), "no l.baseLn.Accept() call")
		return
	}
	okT, succ, _, _ := errTestEdges(base)
	if !okT {
		r.Unk("R-C17.6", name+" base accept error test", p.Pos(base.Pos()), "error of the base Accept is not tested")
		return
	}
	// returns reachable after the base Accept without passing its success edge
	fromBase := reachFrom(base.Block(), map[*ssa.BasicBlock]bool{succ: true})
	n := 0
	for i, ret := range core.Returns(acc) {
		if !fromBase[ret.Block()] || ret.Block() == succ {
			continue
		}
		n++
		temp := ""
		eachValue(ret.Results[1], func(x ssa.Value) {
			for _, y := range flattenPhi(x) {
				for {
					if mi, ok := y.(*ssa.MakeInterface); ok {
						y = mi.X
						continue
					}
					break
				}
				if tc, _ := core.CallResult(y); tc != nil && core.CalleeName(tc.Common()) == mod+"/util/temperror.New" {
					temp = p.Pos(tc.Pos())
				}
			}
		}, mod+"/util/temperror.New")
		r.Check(temp == "", "R-C17.6", fmt.Sprintf("%s base-failure return#%d", name, i), p.Pos(ret.Pos()), "listener-level failure is returned as a non-temporary error",
			"a failure of the base listener is marked temporary (temperror.New at "+temp+"): SplitListener.Start retries forever and never closes its sub-listeners after the base listener is closed")
	}
	if n == 0 {
		r.Unk("R-C17.6", name+" base-failure returns", p.Pos(base.Pos()), "none found")
	}
}


// isRegistry: v denotes the split listener's sub-listener registry - the
// babyListeners field itself, or a *sync.Map parameter of a helper that every
// call site in the module hands that field.
func isRegistry(v ssa.Value, depth int) bool {
	pp := core.PathOf(v)
	if strings.TrimPrefix(pp.Last(), "&") == "babyListeners" {
		return true
	}
	var prm *ssa.Parameter
	switch x := core.Strip(v).(type) {
	case *ssa.Parameter:
		prm = x
	case *ssa.FreeVar:
		// a closure inside the helper: the captured variable is the helper's parameter
		if pf := x.Parent().Parent(); pf != nil {
			for _, in := range closuresCreating(pf, x.Parent()) {
				for i, b := range in.Bindings {
					if i < len(x.Parent().FreeVars) && x.Parent().FreeVars[i] == x {
						return isRegistry(b, depth+1)
					}
				}
			}
		}
		return false
	}
	if pr, isRoot := pp.Root.(*ssa.Parameter); prm == nil && isRoot && len(pp.Fields) == 0 {
		prm = pr
	}
	if prm == nil || depth > 2 {
		return false
	}
	h := prm.Parent()
	idx := -1
	for i, q := range h.Params {
		if q == prm {
			idx = i
		}
	}
	if idx < 0 || core.CurProg == nil {
		return false
	}
	n := 0
	for _, fn := range core.CurProg.ModuleFuncs() {
		for _, cc := range callsTo(fn, h) {
			n++
			if idx >= len(cc.Call.Args) || !isRegistry(cc.Call.Args[idx], depth+1) {
				return false
			}
		}
	}
	return n > 0
}

// closuresCreating lists the MakeClosure instructions in pf that create fn.
func closuresCreating(pf, fn *ssa.Function) []*ssa.MakeClosure {
	var out []*ssa.MakeClosure
	for _, b := range pf.Blocks {
		for _, in := range b.Instrs {
			if mc, ok := in.(*ssa.MakeClosure); ok && mc.Fn == ssa.Value(fn) {
				out = append(out, mc)
			}
		}
	}
	return out
}
