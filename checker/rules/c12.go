package rules

import (
	"fmt"
	"go/token"
	"go/types"
	"sort"
	"strings"

	"nechk/core"

	"golang.org/x/tools/go/ssa"
)

func init() { All["C12"] = c12 }

type sealedType struct {
	typ    string
	store  string
	load   string
	fields []string // sensitive fields, dotted
	clear  []string // fields that must be cleared (nil) rather than sealed
}

var sealedTypes = []sealedType{
	{"NodeCredentials", "(*NodeCredentials).Store", "LoadNodeCredentials",
		[]string{"CertificatePrivateKeyPkcs8", "EncryptionPrivateKeyBytes", "RegistrationNonce", "PreviousEncryptionKey.PrivateKeyPkcs8"}, nil},
	{"NodeInformation", "(*NodeInformation).Store", "LoadNodeInformation",
		[]string{"ServerEncryptionPrivateKeyBytes", "PreviousEncryptionKey.PrivateKeyPkcs8"}, nil},
	{"RootCertificates", "(*RootCertificates).Store", "LoadRootCertificates",
		[]string{"Current.PrivateKeyPkcs8", "Next.PrivateKeyPkcs8"}, nil},
	{"ServerLedActivationToken", "(*ServerLedActivationToken).Store", "LoadServerLedActivationToken",
		[]string{"CreationTimeMarshaled"}, []string{"CreationTime"}},
}

// strEmptyGuard: the fact "path == """.
func strEmptyGuard(name string, m func(core.Path) bool) core.Guard {
	return core.Guard{Name: "Empty(" + name + ")", Match: func(cond ssa.Value) (int, bool) {
		bo, ok := cond.(*ssa.BinOp)
		if !ok || (bo.Op != token.EQL && bo.Op != token.NEQ) {
			return 0, false
		}
		x, y := bo.X, bo.Y
		if _, isC := core.ConstString(x); isC {
			x, y = y, x
		}
		s, isC := core.ConstString(y)
		if !isC || s != "" || !m(core.PathOf(x)) {
			return 0, false
		}
		if bo.Op == token.EQL {
			return 0, true
		}
		return 1, true
	}}
}

func addrFields(addr ssa.Value) (ssa.Value, string) {
	pp := core.PathOf(addr)
	fs := make([]string, len(pp.Fields))
	for i, f := range pp.Fields {
		fs[i] = strings.TrimPrefix(f, "&")
	}
	return pp.Root, strings.Join(fs, ".")
}

// sealStore reports whether st writes Marshal(Encrypt(<same field of the same
// object>)) - directly, or as the result of a module helper / local closure
// that returns Marshal(Encrypt(<its argument>)) - and returns the Encrypt call.
func sealStore(st *ssa.Store) (*ssa.Call, bool) {
	sroot, sfield := addrFields(st.Addr)
	if ec, ok := sealValue(st.Val, sroot, sfield); ok {
		return ec, true
	}
	if vals, subst, h := helperResult(st.Val); h != nil && len(vals) > 0 {
		var enc *ssa.Call
		all := true
		core.WithSubst(subst, func() {
			for _, rv := range vals {
				ec, ok := sealValue(rv, sroot, sfield)
				if !ok {
					all = false
				}
				enc = ec
			}
		})
		if all && enc != nil {
			return enc, true
		}
	}
	return nil, false
}

// sealValue: v is Marshal(Encrypt(data)) with data denoting field sfield of sroot.
func sealValue(v ssa.Value, sroot ssa.Value, sfield string) (*ssa.Call, bool) {
	mc, mi := core.CallResult(core.Strip(v))
	if mc == nil || mi != 0 || core.CalleeName(mc.Common()) != "google.golang.org/protobuf/proto.Marshal" {
		return nil, false
	}
	ec, ei := core.CallResult(core.Strip(mc.Call.Args[0]))
	if ec == nil || ei != 0 {
		return nil, false
	}
	if eff, ok := core.WrapperMethod(ec.Common()); !ok || eff != core.EffWrap {
		return nil, false
	}
	droot, dfield := addrFields(ec.Common().Args[1])
	if droot != sroot || dfield != sfield {
		return nil, false
	}
	return ec, true
}

func c12(c *Ctx) {
	p, r := c.P, c.R
	r.Rule("R-C12.1", "in each typed Store method, on every path on which opts.WithStorageWrapper is non-nil, the object handed to Storage.Store has every sensitive field (frozen table, with a completeness pass over 'Private' byte fields) either replaced by proto.Marshal(Wrapper.Encrypt(that field, WithAad(_))), or empty (length test), or cleared")
	r.Rule("R-C12.2", "per sealed field, the Encrypt AAD in Store and the Decrypt AAD in the matching Load are the same record-bound field, and the set of fields unsealed on load equals the set sealed on store")
	r.Rule("R-C12.3", "sealed bytes are written only into a proto.Clone of the receiver, and the object given to Storage.Store is the receiver or that clone")
	r.Rule("R-C12.4", "every Load success return is cut by NOT(wrapper == nil and WrappingKeyId != \"\")")
	r.Rule("R-C12.5", "the interface method Storage.Store is invoked only from the four typed Store methods")
	r.NotDecided = append(r.NotDecided, "that opening with a different wrapper fails and that a transplanted sealed field fails to open (AEAD properties of the wrapper)", "exact round-trip equality")

	for _, stp := range sealedTypes {
		S := c.need("R-C12.1", "types", stp.store)
		if S == nil {
			continue
		}
		sname := core.FuncName(S)
		recv := S.Params[0]
		// the Storage.Store invoke
		var stCall *ssa.Call
		for _, ci := range core.AllCalls(S) {
			if eff, ok := core.StorageMethod(ci.Common()); ok && eff == core.EffStore {
				stCall, _ = ci.(*ssa.Call)
			}
		}
		if stCall == nil {
			r.Unk("R-C12.1", sname+" Storage.Store call", p.Pos(S.Pos()), "not found")
			continue
		}
		X := core.Strip(stCall.Common().Args[1])
		var clone ssa.Value
		okSrc := true
		for _, src := range flattenPhi(X) {
			if src == ssa.Value(recv) {
				continue
			}
			if ta, ok := src.(*ssa.TypeAssert); ok {
				if cc, _ := core.CallResult(core.Strip(ta.X)); cc != nil && core.CalleeName(cc.Common()) == "google.golang.org/protobuf/proto.Clone" && core.Strip(cc.Call.Args[0]) == ssa.Value(recv) {
					clone = src
					continue
				}
			}
			okSrc = false
		}
		r.Check(okSrc && clone != nil, "R-C12.3", sname+" stored object", p.Pos(stCall.Pos()), "the receiver or proto.Clone(receiver)", "the object handed to Storage.Store is neither the receiver nor its clone")
		if clone == nil {
			continue
		}
		gNoWrap := core.NilTest("opts.WithStorageWrapper is nil", core.AnyRootField("WithStorageWrapper"), true)
		// with a wrapper, the receiver itself must not be what is stored: every phi
		// edge that carries the receiver into X is traversable only without a wrapper
		{
			edges := core.CutReach(p, S, gNoWrap).Edges
			bad := ""
			seenPhi := map[*ssa.Phi]bool{}
			var walk func(v ssa.Value)
			walk = func(v ssa.Value) {
				ph, ok := core.Strip(v).(*ssa.Phi)
				if !ok || seenPhi[ph] {
					return
				}
				seenPhi[ph] = true
				for k, e := range ph.Edges {
					if core.Strip(e) == ssa.Value(recv) && edges[[2]int{ph.Block().Preds[k].Index, ph.Block().Index}] {
						bad = p.Pos(firstPos(ph.Block().Preds[k]))
					}
					walk(e)
				}
			}
			walk(X)
			if X == ssa.Value(recv) {
				bad = "always"
			}
			r.Check(bad == "", "R-C12.3", sname+" clone stored under a wrapper", p.Pos(stCall.Pos()), "with a wrapper configured the stored object is never the receiver itself", "with a wrapper configured the unsealed receiver can be what is handed to Storage.Store (edge from "+bad+")")
		}
		// seal stores by field
		seals := map[string][]*ssa.Store{}
		clears := map[string][]*ssa.Store{}
		// seals performed by one row of a loop over a literal table of field pointers
		type rowSeal struct {
			st    *ssa.Store
			table *ssa.Alloc
			row   int
		}
		rowSeals := map[string][]rowSeal{}
		// (stores in S and in the helpers it was split into, each read in its frame)
		for _, ssite := range core.SplitFind(S, nil, func(in ssa.Instruction) bool { _, ok := in.(*ssa.Store); return ok }) {
			ssite := ssite
			ssite.In(func() {
				st := ssite.Instr.(*ssa.Store)
				if _, isFA := st.Addr.(*ssa.FieldAddr); !isFA {
					// "*row.value = sealed" with row.value = &clone.F
					if _, isLoad := st.Addr.(*ssa.UnOp); isLoad {
						core.EachRow(st, func(table *ssa.Alloc, row int) {
							if table == nil {
								return
							}
							root, field := addrFields(st.Addr)
							if _, isSeal := sealStore(st); isSeal {
								if root == clone {
									rowSeals[field] = append(rowSeals[field], rowSeal{st, table, row})
								} else {
									r.Bad("R-C12.3", sname+" seal target "+field, p.Pos(st.Pos()), "sealed bytes are written into an object that is not the clone (the caller's message is mutated or a different object is sealed)")
								}
							}
						})
					}
					return
				}
				root, field := addrFields(st.Addr)
				if _, isSeal := sealStore(st); isSeal {
					// root may be the clone, or a range element over {clone.Current, clone.Next}
					if root == clone {
						seals[field] = append(seals[field], st)
					} else if rr, ok := rangeOverRootPair(root); ok && rr == clone {
						seals["Current."+field] = append(seals["Current."+field], st)
						seals["Next."+field] = append(seals["Next."+field], st)
					} else {
						r.Bad("R-C12.3", sname+" seal target "+field, p.Pos(st.Pos()), "sealed bytes are written into an object that is not the clone (the caller's message is mutated or a different object is sealed)")
					}
					return
				}
				if root == clone && core.IsNilConst(st.Val) {
					clears[field] = append(clears[field], st)
				}
			})
		}
		for _, f := range append(append([]string{}, stp.fields...), stp.clear...) {
			construct := sname + " field " + f
			avoid := map[*ssa.BasicBlock]bool{}
			for _, st := range seals[f] {
				avoid[st.Block()] = true
			}
			for _, st := range clears[f] {
				avoid[st.Block()] = true
			}
			fparts := strings.Split(f, ".")
			gNonEmpty := core.NonEmpty(f, func(pp core.Path) bool {
				return pp.Root == clone && pp.HasFields(fparts...)
			})
			gEmpty := core.Guard{Name: "len(" + f + ")==0", Match: func(cond ssa.Value) (int, bool) {
				s, ok := gNonEmpty.Match(cond)
				return 1 - s, ok
			}}
			g := core.AnyOf("no wrapper, or "+f+" empty", gNoWrap, gEmpty)
			if rs := rowSeals[f]; len(rs) > 0 {
				// the seal block counts for this field only while its row is being iterated
				core.AvoidHook = func(b *ssa.BasicBlock) bool {
					for _, x := range rs {
						if k, bound := core.BoundRow(x.table); bound && k == x.row && b == x.st.Block() {
							return true
						}
					}
					return false
				}
				res := core.CutReachAvoid(p, S, g, avoid, stCall.Block())
				core.AvoidHook = nil
				if res.Reachable {
					r.Add(core.Obligation{Rule: "R-C12.1", Construct: construct, Pos: p.Pos(stCall.Pos()), Verdict: core.Violated,
						Detail: "with a storage wrapper configured a path reaches Storage.Store without sealing this field (its row of the sealing table can be skipped)", Witness: res.Witness})
				} else {
					r.Add(core.Obligation{Rule: "R-C12.1", Construct: construct, Pos: p.Pos(stCall.Pos()), Verdict: core.Discharged,
						Detail: "sealed by its row of the table loop on every wrapper path before Storage.Store", Guards: res.Instances})
				}
				continue
			}
			if len(avoid) == 0 {
				res := core.CutReach(p, S, g, stCall.Block())
				if res.Reachable {
					r.Add(core.Obligation{Rule: "R-C12.1", Construct: construct, Pos: p.Pos(stCall.Pos()), Verdict: core.Violated,
						Detail: "with a storage wrapper configured this field reaches Storage.Store without being sealed or cleared", Witness: res.Witness})
				} else {
					r.OK("R-C12.1", construct, p.Pos(stCall.Pos()), "unreachable with a wrapper unless empty")
				}
				continue
			}
			// loops: the seal inside a range over {Current, Next} must be on every iteration path
			loopOK := true
			avoid0 := avoid
			avoid = map[*ssa.BasicBlock]bool{}
			for blk := range avoid0 {
				avoid[blk] = true
			}
			for blk := range avoid0 {
				if scc := sccOf(blk); scc != nil {
					h := loopHeader(scc)
					if h == nil {
						loopOK = false
						continue
					}
					// from each in-loop successor of the header, the header is not reachable again without the seal block
					for _, s := range h.Succs {
						if !scc[s] {
							continue
						}
						if reachFrom(s, map[*ssa.BasicBlock]bool{blk: true})[h] && s != blk {
							loopOK = false
						}
					}
					// and the loop itself must be passed: treat header as required too
					avoid[h] = true
					delete(avoid, blk)
				}
			}
			res := core.CutReachAvoid(p, S, g, avoid, stCall.Block())
			if res.Reachable || !loopOK {
				d := "with a storage wrapper configured a path reaches Storage.Store without sealing this field"
				if !loopOK {
					d = "the sealing loop has an iteration path that skips the seal"
				}
				r.Add(core.Obligation{Rule: "R-C12.1", Construct: construct, Pos: p.Pos(stCall.Pos()), Verdict: core.Violated, Detail: d, Witness: res.Witness})
			} else {
				r.Add(core.Obligation{Rule: "R-C12.1", Construct: construct, Pos: p.Pos(stCall.Pos()), Verdict: core.Discharged,
					Detail: "every wrapper path seals (or clears) the field before Storage.Store", Guards: res.Instances})
			}
		}
		// completeness pass
		known := map[string]bool{}
		for _, f := range append(append([]string{}, stp.fields...), stp.clear...) {
			known[f] = true
		}
		var missing []string
		if tn := p.Mod[typesPkg].Types.Scope().Lookup(stp.typ); tn != nil {
			collectPrivate(tn.Type(), "", 0, func(path string) {
				if !known[path] {
					missing = append(missing, path)
				}
			})
		}
		sort.Strings(missing)
		if len(missing) > 0 {
			r.Unk("R-C12.1", stp.typ+" sensitive-field table completeness", "", "byte fields that look like private key material but are not in the table: "+strings.Join(missing, ","))
		} else {
			r.OK("R-C12.1", stp.typ+" sensitive-field table completeness", "", "no unlisted 'Private' byte field")
		}

		aadAgreement(c, "R-C12.2", stp.store, stp.load, stp.typ)
		// AAD must be a record-bound field
		for _, ws := range wrapSites(S, true) {
			// (for a sealed field of a sub-record - Current.X / Next.X - the AAD is the same sub-record's field)
			ai, di := strings.LastIndex(ws.aad, "."), strings.LastIndex(ws.data, ".")
			last := ws.aad[ai+1:]
			samePrefix := (ai < 0 && di < 0) || (ai >= 0 && di >= 0 && ws.aad[:ai] == ws.data[:di])
			okA := samePrefix && (last == "CertificatePublicKeyPkix" || last == "PublicKeyPkix" || last == "Id")
			r.Check(okA, "R-C12.2", sname+" AAD of "+ws.data, p.Pos(ws.call.Pos()), "bound to the record through ."+ws.aad, "sealed value is not bound to a field identifying its record (AAD="+ws.aad+")")
		}

		// R-C12.4
		L := c.need("R-C12.4", "types", stp.load)
		if L != nil {
			target := L
			// the refusal may live in the unsealing helper
			g := core.AnyOf("wrapper configured, or record not sealed",
				core.NilTest("opts.WithStorageWrapper non-nil", core.AnyRootField("WithStorageWrapper"), false),
				strEmptyGuard("WrappingKeyId", core.AnyRootField("WrappingKeyId")))
			rets := core.SuccessReturns(target)
			helperUsed := false
			for _, ret := range rets {
				// a return that forwards a helper's results is checked in the helper
				if hc, _ := core.CallResult(core.Strip(ret.Results[0])); hc != nil {
					if cal := hc.Common().StaticCallee(); cal != nil && core.InModule(cal) && len(wrapSites(cal, false)) > 0 {
						target = cal
						helperUsed = true
					}
				}
			}
			if helperUsed {
				r.Fn(core.FuncName(target))
				rets = core.SuccessReturns(target)
			}
			if len(rets) == 0 {
				r.Unk("R-C12.4", core.FuncName(target)+" success returns", p.Pos(target.Pos()), "none")
			}
			for i, ret := range rets {
				res := core.CutReach(p, target, g, ret.Block())
				r.CutOb(p, "R-C12.4", fmt.Sprintf("%s success-return#%d", core.FuncName(target), i), p.Pos(ret.Pos()), res, g)
			}
		}
	}

	// R-C12.5
	allowed := map[string]bool{}
	for _, stp := range sealedTypes {
		if f := p.Func("types", stp.store); f != nil {
			allowed[core.FuncName(f)] = true
		}
	}
	n := 0
	for _, fn := range p.ModuleFuncs() {
		for _, ci := range core.AllCalls(fn) {
			if eff, ok := core.StorageMethod(ci.Common()); ok && eff == core.EffStore {
				n++
				nm := core.FuncName(fn)
				r.Check(allowed[nm], "R-C12.5", "Storage.Store invoked from "+nm, p.Pos(ci.Pos()), "typed Store method (seals first)", "raw Storage.Store call bypasses the sealing code")
			}
		}
	}
	if n == 0 {
		r.Unk("R-C12.5", "Storage.Store call sites", "", "none found")
	}
}

// collectPrivate visits byte-slice fields whose name contains "Private" in a
// message type, following message-typed fields two levels deep.
func collectPrivate(t types.Type, prefix string, depth int, visit func(string)) {
	st := structOfType(t)
	if st == nil || depth > 2 {
		return
	}
	for i := 0; i < st.NumFields(); i++ {
		f := st.Field(i)
		if !f.Exported() {
			continue
		}
		if sl, ok := f.Type().Underlying().(*types.Slice); ok {
			if b, ok := sl.Elem().Underlying().(*types.Basic); ok && b.Kind() == types.Byte && strings.Contains(f.Name(), "Private") {
				visit(prefix + f.Name())
			}
			continue
		}
		if pt, ok := f.Type().(*types.Pointer); ok {
			if n, ok := pt.Elem().(*types.Named); ok && n.Obj().Pkg() != nil && n.Obj().Pkg().Path() == typesPkg {
				collectPrivate(pt.Elem(), prefix+f.Name()+".", depth+1, visit)
			}
		}
	}
}
