package rules

import (
	"fmt"
	"go/token"
	"strings"

	"nechk/core"

	"golang.org/x/tools/go/ssa"
)

func init() { All["C20"] = c20 }

// sprintfArgs returns the constant format and the variadic arguments of a
// fmt.Sprintf call.
func sprintfArgs(call *ssa.Call) (string, map[int]ssa.Value, bool) {
	if core.CalleeName(call.Common()) != "fmt.Sprintf" || len(call.Call.Args) != 2 {
		return "", nil, false
	}
	format, ok := core.ConstString(call.Call.Args[0])
	if !ok {
		return "", nil, false
	}
	sl, ok := call.Call.Args[1].(*ssa.Slice)
	if !ok {
		return "", nil, false
	}
	al, ok := sl.X.(*ssa.Alloc)
	if !ok {
		return "", nil, false
	}
	args := map[int]ssa.Value{}
	for _, ref := range *al.Referrers() {
		ia, ok := ref.(*ssa.IndexAddr)
		if !ok {
			continue
		}
		idx, ok := core.ConstInt(ia.Index)
		if !ok {
			continue
		}
		for _, r2 := range *ia.Referrers() {
			if st, ok := r2.(*ssa.Store); ok && st.Addr == ia {
				args[int(idx)] = core.Strip(st.Val)
			}
		}
	}
	return format, args, true
}

// fmtDirective is one piece of a format string.
type fmtDirective struct {
	lit   string // literal text (when verb == 0)
	verb  byte
	flags string
	width int
}

func parseFormat(f string) []fmtDirective {
	var out []fmtDirective
	lit := ""
	for i := 0; i < len(f); i++ {
		if f[i] != '%' {
			lit += string(f[i])
			continue
		}
		if i+1 < len(f) && f[i+1] == '%' {
			lit += "%"
			i++
			continue
		}
		if lit != "" {
			out = append(out, fmtDirective{lit: lit})
			lit = ""
		}
		i++
		d := fmtDirective{}
		for i < len(f) && strings.ContainsRune("+-# 0", rune(f[i])) {
			d.flags += string(f[i])
			i++
		}
		for i < len(f) && f[i] >= '0' && f[i] <= '9' {
			d.width = d.width*10 + int(f[i]-'0')
			i++
		}
		if i < len(f) {
			d.verb = f[i]
		}
		out = append(out, d)
	}
	if lit != "" {
		out = append(out, fmtDirective{lit: lit})
	}
	return out
}

func c20(c *Ctx) {
	p, r := c.P, c.R
	r.Rule("R-C20.1", "the decoder removes the chunk header in a way that is format-compatible with the encoder's Sprintf format for every index: the encoder writes <prefix><non-negative decimal index><delimiter><payload>; the decoder strips the prefix and cuts at the first occurrence of that same delimiter (which decimal digits cannot contain), or strips a fixed width that the encoder's index bound keeps fixed; the payload part appended is what follows the delimiter")
	r.Rule("R-C20.2", "every run-time panic site of the encoder and decoder is discharged (length tests, clamped slice bounds, range bounds; the chunk-size division by constant-prefix call sites)")
	r.Rule("R-C20.3", "entry length: with budget constant B the chunk size is B-len(prefix); an entry is at most B + digits(index) + len(delimiter) <= 255 for every index a ClientHello-sized payload can need; every module call site passes a constant prefix with 0 < len(prefix) < B")
	r.Rule("R-C20.5", "the encoder refuses only empty inputs: every error return of BreakIntoNextProtos is reachable only through len(prefix)==0 or len(value)==0 (any other rejection, e.g. a size limit, refuses payloads that fit a ClientHello)")
	r.Rule("R-C20.6", "the decoder refuses only empty inputs and entries without the delimiter: every error return of CombineFromNextProtos is reachable only through len(prefix)==0, len(chunks)==0 or the not-found edge of the delimiter search (any other rejection, e.g. of the shape of the chunk number, refuses entries the encoder writes)")
	r.Rule("R-C20.4", "every produced entry starts with the prefix: the format begins with a %s bound to the prefix parameter")
	r.NotDecided = append(r.NotDecided, "content equality of the round trip for every payload", "interleaving with foreign entries beyond 'entries without the prefix are skipped'")

	enc := c.need("R-C20.1", "tls", "BreakIntoNextProtos")
	dec := c.need("R-C20.1", "tls", "CombineFromNextProtos")
	if enc == nil || dec == nil {
		return
	}
	// encoder format
	// (possibly inside a formatting helper: its parameters stand for the arguments)
	var sp *ssa.Call
	var format string
	var args map[int]ssa.Value
	ok := false
	for _, site := range core.DeepCalls(enc, core.MaxSummaryDepth, "fmt.Sprintf") {
		cc, isCall := site.Instr.(*ssa.Call)
		if !isCall {
			continue
		}
		site.In(func() {
			if f, a, fok := sprintfArgs(cc); fok {
				sp, format, args, ok = cc, f, a, true
				if len(site.Chain) > 0 {
					r.Fn(core.FuncName(site.Fn))
				}
			}
		})
	}
	if sp == nil {
		r.Unk("R-C20.1", "tls.BreakIntoNextProtos entry format", p.Pos(enc.Pos()), "no fmt.Sprintf building the entries")
		return
	}
	dirs := parseFormat(format)
	// expected shape: %s <digits verb> literal %s
	shape := ok && len(dirs) == 4 && dirs[0].verb == 's' && dirs[1].verb == 'd' && dirs[2].verb == 0 && dirs[3].verb == 's'
	if !shape {
		r.Unk("R-C20.1", "tls.BreakIntoNextProtos entry format", p.Pos(sp.Pos()), fmt.Sprintf("format %q is not <prefix %%s><index %%d><literal delimiter><payload %%s>", format))
		return
	}
	delim := dirs[2].lit
	numOK := !strings.ContainsAny(dirs[1].flags, "+ -") && !strings.ContainsAny(delim, "0123456789") && delim != ""
	r.Check(numOK, "R-C20.1", "tls.BreakIntoNextProtos index rendering", p.Pos(sp.Pos()), fmt.Sprintf("index rendered as unsigned decimal (min width %d) followed by %q", dirs[1].width, delim), "the index rendering can contain the delimiter or a sign; the header cannot be parsed unambiguously")
	// the index is a counter starting at 0 incremented by 1 (never negative)
	cntOK := false
	if ph, isPhi := args[1].(*ssa.Phi); isPhi {
		cntOK = true
		for _, e := range ph.Edges {
			if k, isK := core.ConstInt(e); isK && k == 0 {
				continue
			}
			if bo, isBo := e.(*ssa.BinOp); isBo && bo.Op.String() == "+" && bo.X == ssa.Value(ph) {
				if k, isK := core.ConstInt(bo.Y); isK && k == 1 {
					continue
				}
			}
			cntOK = false
		}
	}
	// or the number of entries produced so far: len(ret) with ret = phi(zero-length make, append(ret, one entry))
	if lc, isCall := args[1].(*ssa.Call); isCall && core.CalleeName(lc.Common()) == "builtin:len" {
		if ph, isPhi := core.Strip(lc.Call.Args[0]).(*ssa.Phi); isPhi {
			cntOK = true
			for _, e := range ph.Edges {
				switch x := core.Strip(e).(type) {
				case *ssa.MakeSlice:
					if k, isK := core.ConstInt(x.Len); isK && k == 0 {
						continue
					}
				case *ssa.Call:
					if base, elems, isApp := appendParts(x); isApp && core.Strip(base) == ssa.Value(ph) && len(elems) == 1 {
						continue
					}
				}
				cntOK = false
			}
		}
	}
	r.Check(cntOK, "R-C20.1", "tls.BreakIntoNextProtos index is a counter from 0", p.Pos(sp.Pos()), "index = 0,1,2,...", "the chunk index is not a non-negative counter")
	// R-C20.4
	prefixParam := ssa.Value(enc.Params[0])
	r.Check(args[0] == prefixParam, "R-C20.4", "tls.BreakIntoNextProtos entry starts with the prefix", p.Pos(sp.Pos()), "first %s is the prefix parameter", "entries do not start with the prefix parameter")
	// payload argument is value[i:end]
	payOK := false
	if sl, isSl := args[2].(*ssa.Slice); isSl && core.Strip(sl.X) == ssa.Value(enc.Params[1]) {
		payOK = true
	}
	r.Check(payOK, "R-C20.1", "tls.BreakIntoNextProtos payload part", p.Pos(sp.Pos()), "last %s is a slice of the value parameter", "the payload part of an entry is not a slice of the value")

	// decoder
	decPrefix := ssa.Value(dec.Params[0])
	var strip *ssa.Call
	var stripSite core.DeepSite
	for _, site := range core.SplitCalls(dec, nil, "strings.CutPrefix", "strings.TrimPrefix") {
		cc := site.Instr.(*ssa.Call)
		site.In(func() {
			if core.Strip(cc.Call.Args[1]) == decPrefix {
				strip, stripSite = cc, site
			}
		})
	}
	_ = stripSite
	var rest ssa.Value
	if strip != nil {
		rest = ssa.Value(strip)
		if strip.Common().Signature().Results().Len() > 1 {
			rest = extractOf(strip, 0)
		}
	} else {
		// chunk[len(prefix):] behind strings.HasPrefix(chunk, prefix)
		for _, b := range dec.Blocks {
			for _, in := range b.Instrs {
				sl, isSl := in.(*ssa.Slice)
				if !isSl || sl.High != nil {
					continue
				}
				lc, isCall := sl.Low.(*ssa.Call)
				if !isCall || core.CalleeName(lc.Common()) != "builtin:len" || core.Strip(lc.Call.Args[0]) != decPrefix {
					continue
				}
				chunk := core.Strip(sl.X)
				g := core.Guard{Name: "HasPrefix(chunk, prefix)", Match: func(cond ssa.Value) (int, bool) {
					hc, ok := cond.(*ssa.Call)
					if ok && core.CalleeName(hc.Common()) == "strings.HasPrefix" && core.Strip(hc.Call.Args[0]) == chunk && core.Strip(hc.Call.Args[1]) == decPrefix {
						return 0, true
					}
					return 0, false
				}}
				if res := core.CutReach(p, dec, g, sl.Block()); !res.Reachable && len(res.Instances) > 0 {
					rest = sl
				}
			}
		}
	}
	if rest == nil {
		r.Bad("R-C20.1", "tls.CombineFromNextProtos prefix strip", p.Pos(dec.Pos()), "the decoder does not strip the prefix parameter from the entries")
		return
	}
	// delimiter-based
	var cut *ssa.Call
	for _, site := range core.SplitCalls(dec, nil, "strings.Cut") {
		cc := site.Instr.(*ssa.Call)
		site.In(func() {
			if core.Strip(cc.Call.Args[0]) == rest {
				cut = cc
			}
		})
	}
	// ... or rest[strings.Index(rest, sep)+len(sep):]
	var idxCut *ssa.Slice
	var idxCall *ssa.Call
	if cut == nil {
		for _, b := range dec.Blocks {
			for _, in := range b.Instrs {
				sl, isSl := in.(*ssa.Slice)
				if !isSl || sl.High != nil || core.Strip(sl.X) != rest {
					continue
				}
				if ic, k, ok := core.IndexPlusConst(sl.Low); ok && core.Strip(ic.Call.Args[0]) == rest {
					if sep, isC := core.ConstString(ic.Call.Args[1]); isC && k == int64(len(sep)) {
						idxCut, idxCall = sl, ic
					}
				}
			}
		}
	}
	if idxCut != nil {
		sep, _ := core.ConstString(idxCall.Call.Args[1])
		r.Check(sep == delim, "R-C20.1", "tls.CombineFromNextProtos header removal", p.Pos(idxCut.Pos()), fmt.Sprintf("cuts after the first %q, the delimiter the encoder writes after the index", delim), fmt.Sprintf("decoder cuts at %q but the encoder's delimiter is %q", sep, delim))
		appended := false
		for _, b := range dec.Blocks {
			for _, in := range b.Instrs {
				if bo, isBo := in.(*ssa.BinOp); isBo && bo.Op.String() == "+" && bo.Y == ssa.Value(idxCut) {
					appended = true
				}
				if wc, isW := core.IsCallTo(in, "(*strings.Builder).WriteString"); isW && len(wc.Args) == 2 && core.Strip(wc.Args[1]) == ssa.Value(idxCut) {
					appended = true
				}
			}
		}
		r.Check(appended, "R-C20.1", "tls.CombineFromNextProtos appended part", p.Pos(idxCut.Pos()), "appends the text after the delimiter", "the decoder does not append the text following the delimiter")
	} else if cut != nil {
		sep, isC := core.ConstString(cut.Call.Args[1])
		r.Check(isC && sep == delim, "R-C20.1", "tls.CombineFromNextProtos header removal", p.Pos(cut.Pos()), fmt.Sprintf("cuts at the first %q, the delimiter the encoder writes after the index", delim), fmt.Sprintf("decoder cuts at %q but the encoder's delimiter is %q", sep, delim))
		// appended part is what follows the delimiter, and 'found' is required
		after := extractOf(cut, 1)
		appended := false
		for _, b := range dec.Blocks {
			for _, in := range b.Instrs {
				if bo, isBo := in.(*ssa.BinOp); isBo && bo.Op.String() == "+" && (bo.Y == after || sameAs(bo.Y, after)) {
					appended = true
				}
				if wc, isW := core.IsCallTo(in, "(*strings.Builder).WriteString"); isW && len(wc.Args) == 2 && (core.Strip(wc.Args[1]) == after || sameAs(wc.Args[1], after)) {
					appended = true
				}
			}
		}
		r.Check(appended, "R-C20.1", "tls.CombineFromNextProtos appended part", p.Pos(cut.Pos()), "appends the text after the delimiter", "the decoder does not append the text following the delimiter")
	} else {
		// fixed-width strip
		var fixed *ssa.Slice
		for _, b := range dec.Blocks {
			for _, in := range b.Instrs {
				if sl, isSl := in.(*ssa.Slice); isSl && core.Strip(sl.X) == rest && sl.High == nil {
					fixed = sl
				}
			}
		}
		if fixed == nil {
			r.Bad("R-C20.1", "tls.CombineFromNextProtos header removal", p.Pos(dec.Pos()), "neither a delimiter-based nor a fixed-width header removal found")
		} else {
			k, _ := core.ConstInt(fixed.Low)
			// fixed width is compatible only if the encoder bounds the index below 10^minWidth
			bound := int64(1)
			for i := 0; i < dirs[1].width; i++ {
				bound *= 10
			}
			bounded := false
			for _, b := range enc.Blocks {
				if ifi, isIf := b.Instrs[len(b.Instrs)-1].(*ssa.If); isIf {
					if bo, isBo := ifi.Cond.(*ssa.BinOp); isBo && (bo.X == args[1] || bo.Y == args[1]) {
						if kk, isK := core.ConstInt(bo.Y); isK && kk <= bound {
							bounded = true
						}
					}
				}
			}
			okW := int(k) == dirs[1].width+len(delim) && bounded
			r.Check(okW, "R-C20.1", "tls.CombineFromNextProtos header removal", p.Pos(fixed.Pos()),
				"fixed width equals the encoder's width and the encoder bounds the index",
				fmt.Sprintf("decoder strips a fixed %d bytes but the encoder writes a minimum-width (%%0%dd) index that grows beyond %d digits: payloads of %d or more chunks do not round-trip", k, dirs[1].width, dirs[1].width, bound))
		}
	}

	// R-C20.5
	{
		isIn := func(pp core.Path) bool {
			return len(pp.Fields) == 0 && (pp.Root == ssa.Value(enc.Params[0]) || pp.Root == ssa.Value(enc.Params[1]))
		}
		gNonEmpty := core.NonEmpty("prefix / value", isIn)
		gStr := strEmptyGuard("prefix / value", isIn)
		gEmpty := core.Guard{Name: "prefix or value empty (or a size limit not below the 65535-byte ALPN extension limit)", Match: func(cond ssa.Value) (int, bool) {
			if s, ok := gNonEmpty.Match(cond); ok {
				return 1 - s, true
			}
			if s, ok := gStr.Match(cond); ok {
				return s, true
			}
			// "size > K" with K >= 65535: nothing that fits a ClientHello is refused
			if bo, ok := cond.(*ssa.BinOp); ok {
				x, y, op := bo.X, bo.Y, bo.Op
				if _, isC := core.ConstInt(x); isC {
					x, y = y, x
					switch op {
					case token.LSS:
						op = token.GTR
					case token.LEQ:
						op = token.GEQ
					case token.GTR:
						op = token.LSS
					case token.GEQ:
						op = token.LEQ
					}
				}
				if k, isK := core.ConstInt(y); isK && k >= 65535 {
					switch op {
					case token.GTR, token.GEQ:
						return 0, true
					case token.LSS, token.LEQ:
						return 1, true
					}
				}
				// "budget - len(prefix) <= 0" (or < 1): a prefix that leaves no room for payload; every
				// module call site passes a constant prefix shorter than the budget (R-C20.3), and such
				// inputs divided by zero before
				if k, isK := core.ConstInt(y); isK && (k == 0 || k == 1) {
					if sub, isSub := x.(*ssa.BinOp); isSub && sub.Op == token.SUB {
						if _, isB := core.ConstInt(sub.X); isB {
							if lc, isLen := sub.Y.(*ssa.Call); isLen && core.CalleeName(lc.Common()) == "builtin:len" && core.Strip(lc.Call.Args[0]) == ssa.Value(enc.Params[0]) {
								switch {
								case (op == token.LEQ && k == 0) || (op == token.LSS && k == 1):
									return 0, true
								case (op == token.GTR && k == 0) || (op == token.GEQ && k == 1):
									return 1, true
								}
							}
						}
					}
				}
			}
			return 0, false
		}}
		ei := core.ErrorResultIndex(enc.Signature)
		n := 0
		for i, ret := range core.Returns(enc) {
			if core.ReturnErrKind(ret, ei) == core.ErrNilConst {
				continue
			}
			n++
			res := core.CutReach(p, enc, gEmpty, ret.Block())
			if res.Reachable {
				r.Add(core.Obligation{Rule: "R-C20.5", Construct: fmt.Sprintf("tls.BreakIntoNextProtos error-return#%d", i), Pos: p.Pos(ret.Pos()), Verdict: core.Violated,
					Detail: "the encoder can refuse a non-empty prefix and value (a limit or check other than emptiness): payloads that fit a ClientHello no longer round-trip", Witness: res.Witness})
			} else {
				r.OK("R-C20.5", fmt.Sprintf("tls.BreakIntoNextProtos error-return#%d", i), p.Pos(ret.Pos()), "reached only for an empty prefix or value")
			}
		}
		if n == 0 {
			r.OK("R-C20.5", "tls.BreakIntoNextProtos error returns", p.Pos(enc.Pos()), "none")
		}
	}

	// R-C20.6
	{
		isIn := func(pp core.Path) bool {
			return len(pp.Fields) == 0 && (pp.Root == ssa.Value(dec.Params[0]) || pp.Root == ssa.Value(dec.Params[1]))
		}
		gNonEmpty := core.NonEmpty("prefix / chunks", isIn)
		gStr := strEmptyGuard("prefix", isIn)
		isFound := func(v ssa.Value) bool {
			ok := false
			eachValue(v, func(x ssa.Value) {
				if ex, isEx := core.Strip(x).(*ssa.Extract); isEx && ex.Index == 2 {
					if cc, isCall := ex.Tuple.(*ssa.Call); isCall && core.CalleeName(cc.Common()) == "strings.Cut" {
						ok = true
					}
				}
			})
			return ok
		}
		gAllowed := core.Guard{Name: "empty input or delimiter not found", Match: func(cond ssa.Value) (int, bool) {
			if s, ok := gNonEmpty.Match(cond); ok {
				return 1 - s, true
			}
			if s, ok := gStr.Match(cond); ok {
				return s, true
			}
			// found (of strings.Cut, possibly through a helper): the reject edge is the false edge
			if isFound(cond) {
				return 1, true
			}
			// strings.Index(rest, sep) < 0
			if bo, ok := cond.(*ssa.BinOp); ok {
				if ic, _, isIdx := core.IndexPlusConst(bo.X); isIdx && ic != nil {
					if k, isK := core.ConstInt(bo.Y); isK {
						switch {
						case bo.Op == token.LSS && k == 0, bo.Op == token.EQL && k == -1:
							return 0, true
						case bo.Op == token.GEQ && k == 0, bo.Op == token.NEQ && k == -1:
							return 1, true
						}
					}
				}
			}
			return 0, false
		}}
		ei := core.ErrorResultIndex(dec.Signature)
		for i, ret := range core.Returns(dec) {
			if core.ReturnErrKind(ret, ei) == core.ErrNilConst {
				continue
			}
			res := core.CutReach(p, dec, gAllowed, ret.Block())
			if res.Reachable {
				r.Add(core.Obligation{Rule: "R-C20.6", Construct: fmt.Sprintf("tls.CombineFromNextProtos error-return#%d", i), Pos: p.Pos(ret.Pos()), Verdict: core.Violated,
					Detail: "the decoder can refuse an entry for a reason other than a missing delimiter (or empty inputs): entries the encoder writes (e.g. chunk numbers of three or more digits) are rejected", Witness: res.Witness})
			} else {
				r.OK("R-C20.6", fmt.Sprintf("tls.CombineFromNextProtos error-return#%d", i), p.Pos(ret.Pos()), "reached only for empty inputs or a missing delimiter")
			}
		}
	}

	// R-C20.2
	for _, fn := range []*ssa.Function{enc, dec} {
		n := 0
		for _, s := range core.PanicSites(p, fn) {
			n++
			construct := fmt.Sprintf("%s %s %s", core.FuncName(fn), s.Kind, s.Desc)
			if s.Discharged {
				r.OK("R-C20.2", construct, p.Pos(s.Instr.Pos()), s.Why)
				continue
			}
			if s.Kind == "divide" && fn == enc {
				okc, why := constPrefixCallers(c, enc)
				r.Check(okc, "R-C20.2", construct, p.Pos(s.Instr.Pos()), "chunk size is positive at every call site: "+why, "chunk size can be zero: "+why)
				continue
			}
			r.Bad("R-C20.2", construct, p.Pos(s.Instr.Pos()), "can panic: "+s.Why)
		}
		if n == 0 && fn == enc {
			r.Unk("R-C20.2", core.FuncName(fn)+" panic sites", p.Pos(fn.Pos()), "no site enumerated (the payload slicing is expected)")
		}
	}

	// R-C20.3
	var B int64 = -1
	for _, b := range enc.Blocks {
		for _, in := range b.Instrs {
			if bo, isBo := in.(*ssa.BinOp); isBo && bo.Op.String() == "-" {
				if k, isK := core.ConstInt(bo.X); isK {
					if lc, isCall := bo.Y.(*ssa.Call); isCall && core.CalleeName(lc.Common()) == "builtin:len" && core.Strip(lc.Call.Args[0]) == prefixParam {
						B = k
					}
				}
			}
		}
	}
	if B < 0 {
		r.Unk("R-C20.3", "tls.BreakIntoNextProtos budget", p.Pos(enc.Pos()), "chunk size is not <constant> - len(prefix)")
	} else {
		// payload <= 65535 bytes and at least one payload byte per entry => index < 65536 => at most 5 digits
		digits := 5
		if dirs[1].width > digits {
			digits = dirs[1].width
		}
		max := int(B) + digits + len(delim)
		r.Check(max <= 255, "R-C20.3", "tls.BreakIntoNextProtos maximum entry length", p.Pos(enc.Pos()), fmt.Sprintf("B=%d: entries are at most %d <= 255 bytes", B, max), fmt.Sprintf("B=%d: an entry can be %d bytes long, above the 255-byte ALPN limit", B, max))
		okc, why := constPrefixCallers(c, enc)
		r.Check(okc, "R-C20.3", "tls.BreakIntoNextProtos call-site prefixes", p.Pos(enc.Pos()), why, why)
	}
}

// constPrefixCallers: every module call site of enc passes a constant prefix
// with 0 < len < 240 (so the chunk size is positive).
func constPrefixCallers(c *Ctx, enc *ssa.Function) (bool, string) {
	n := 0
	for _, fn := range c.P.ModuleFuncs() {
		for _, cc := range callsTo(fn, enc) {
			n++
			s, ok := core.ConstString(cc.Call.Args[0])
			if !ok {
				return false, "non-constant prefix at " + c.P.Pos(cc.Pos())
			}
			if len(s) == 0 || len(s) >= 240 {
				return false, fmt.Sprintf("prefix of length %d at %s", len(s), c.P.Pos(cc.Pos()))
			}
		}
	}
	if n == 0 {
		return false, "no module call site found"
	}
	return true, fmt.Sprintf("%d call sites, all with a constant prefix shorter than the budget", n)
}
