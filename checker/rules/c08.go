package rules

import (
	"fmt"
	"sort"
	"strings"

	"nechk/core"

	"golang.org/x/tools/go/ssa"
)

func init() { All["C08"] = c08; All["C09"] = c09 }

// rotState is one abstract state of the decision function: nil flags and the
// order of the four stored instants relative to now (-1: before now, 0: equal,
// +1: after now).
type rotState struct {
	inNil, curNil, nextNil bool
	cNB, cNA, nNB, nNA     int
	in                     ssa.Value
}

func (s rotState) String() string {
	if s.inNil {
		return "in=nil"
	}
	if s.curNil || s.nextNil {
		return fmt.Sprintf("current nil=%v next nil=%v", s.curNil, s.nextNil)
	}
	r := func(v int) string { return map[int]string{-1: "<", 0: "=", 1: ">"}[v] }
	return fmt.Sprintf("cNB%snow cNA%snow nNB%snow nNA%snow", r(s.cNB), r(s.cNA), r(s.nNB), r(s.nNA))
}

func (s rotState) IsNil(p core.Path) (bool, bool) {
	if p.Root != s.in {
		return false, false
	}
	switch strings.Join(p.Fields, ".") {
	case "":
		return s.inNil, true
	case "Current":
		return s.curNil, true
	case "Next":
		return s.nextNil, true
	}
	return false, false
}

func (s rotState) inst(t core.TimeForm) (int, bool) {
	if len(t.Terms) != 0 {
		return 0, false
	}
	if t.Base == "now" {
		return 0, true
	}
	if t.Root != s.in {
		return 0, false
	}
	switch t.Base {
	case "ts:Current.NotBefore":
		return s.cNB, true
	case "ts:Current.NotAfter":
		return s.cNA, true
	case "ts:Next.NotBefore":
		return s.nNB, true
	case "ts:Next.NotAfter":
		return s.nNA, true
	}
	return 0, false
}

func (s rotState) TimeGreater(l, r core.TimeForm) (bool, bool) {
	// one side must be now
	lv, lok := s.inst(l)
	rv, rok := s.inst(r)
	if !lok || !rok || (l.Base != "now" && r.Base != "now") {
		return false, false
	}
	return lv > rv, true
}

type rotOutcome struct {
	make  string // "", "next", "current,next"
	carry string // "", "Current", "Next"
}

func (o rotOutcome) String() string {
	m := o.make
	if m == "" {
		m = "nothing"
	}
	c := o.carry
	if c == "" {
		c = "none"
	}
	return "make[" + m + "] carry " + c
}

// strict oracle from the property statement (no ties).
func rotOracleStrict(cNB, cNA, nNB, nNA int) []rotOutcome {
	startOver := rotOutcome{"current,next", ""}
	promote := rotOutcome{"next", "Next"}
	remint := rotOutcome{"next", "Current"}
	nothing := rotOutcome{"", ""}
	switch {
	case cNB > 0:
		return []rotOutcome{startOver}
	case cNA < 0: // current expired
		if nNB < 0 && nNA > 0 {
			return []rotOutcome{promote}
		}
		return []rotOutcome{startOver}
	default: // current valid
		switch {
		case nNA < 0 && nNB > 0: // inconsistent next window: expired and not yet valid
			return []rotOutcome{remint, nothing}
		case nNA < 0:
			return []rotOutcome{remint}
		case nNB > 0:
			return []rotOutcome{nothing}
		default:
			return []rotOutcome{promote}
		}
	}
}

func refinements(v int) []int {
	if v == 0 {
		return []int{-1, 1}
	}
	return []int{v}
}

func rotAccept(s rotState) map[rotOutcome]bool {
	acc := map[rotOutcome]bool{}
	if s.inNil || s.curNil || s.nextNil {
		acc[rotOutcome{"current,next", ""}] = true
		return acc
	}
	for _, a := range refinements(s.cNB) {
		for _, b := range refinements(s.cNA) {
			for _, c := range refinements(s.nNB) {
				for _, d := range refinements(s.nNA) {
					for _, o := range rotOracleStrict(a, b, c, d) {
						acc[o] = true
					}
				}
			}
		}
	}
	// safety post-conditions that hold in every state, ties included
	curIn := s.cNB <= 0 && s.cNA >= 0
	nextIn := s.nNB <= 0 && s.nNA >= 0
	for o := range acc {
		switch {
		case o.make == "" && !curIn:
			delete(acc, o)
		case o.make == "next" && o.carry == "Next" && !nextIn:
			delete(acc, o)
		case o.make == "next" && o.carry == "Current" && !curIn:
			delete(acc, o)
		}
	}
	return acc
}

// decideFunc finds the decision function: the module function in package
// rotation returning ([]KnownId, *RootCertificate).
func decideFunc(c *Ctx, rule string) *ssa.Function {
	pkg := c.P.Pkg("rotation")
	if pkg != nil {
		for _, m := range pkg.Members {
			fn, ok := m.(*ssa.Function)
			if !ok || fn.Signature.Results().Len() != 2 {
				continue
			}
			// ... of the loaded root set (helpers with the same result shape take no root set)
			if fn.Signature.Params().Len() != 1 || !namedType(fn.Signature.Params().At(0).Type(), typesPkg, "RootCertificates") || fn.Blocks == nil {
				continue
			}
			if strings.HasSuffix(fn.Signature.Results().At(0).Type().String(), "nodeenrollment.KnownId") && namedType(fn.Signature.Results().At(1).Type(), typesPkg, "RootCertificate") {
				c.R.Fn(core.FuncName(fn))
				return fn
			}
		}
	}
	c.R.Unk(rule, "rotation decision function", "", "no function returning ([]KnownId, *RootCertificate) in package rotation")
	return nil
}

// evalKnownIds evaluates a []KnownId value built by appends of constants.
func evalKnownIds(v ssa.Value, env map[*ssa.Phi]ssa.Value) (string, bool) {
	v = core.ResolveEnv(v, env)
	if core.IsNilConst(v) {
		return "", true
	}
	// a helper that builds the list (no parameters involved)
	if vals, _, h := helperResult(v); h != nil && len(vals) == 1 {
		return evalKnownIds(vals[0], map[*ssa.Phi]ssa.Value{})
	}
	// a slice literal []KnownId{a, b}
	if elems, ok := sliceLiteralElems(v); ok {
		var parts []string
		for _, e := range elems {
			s, ok := core.ConstString(core.Strip(e))
			if !ok {
				return "", false
			}
			parts = append(parts, s)
		}
		return strings.Join(parts, ","), true
	}
	base, elems, ok := appendParts(v)
	if !ok {
		return "", false
	}
	b, ok := evalKnownIds(base, env)
	if !ok {
		return "", false
	}
	parts := []string{}
	if b != "" {
		parts = append(parts, b)
	}
	for _, e := range elems {
		s, ok := core.ConstString(core.Strip(e))
		if !ok {
			return "", false
		}
		parts = append(parts, s)
	}
	return strings.Join(parts, ","), true
}

// runDecisionTable enumerates all abstract states and compares each leaf
// with the oracle. Returns the per-state outcomes for C09.
func runDecisionTable(c *Ctx, rule string, report bool) (map[string]rotOutcome, bool) {
	p, r := c.P, c.R
	fn := decideFunc(c, rule)
	if fn == nil {
		return nil, false
	}
	name := core.FuncName(fn)
	in := ssa.Value(fn.Params[0])
	var states []rotState
	states = append(states, rotState{inNil: true, in: in})
	states = append(states, rotState{curNil: true, nextNil: true, in: in}, rotState{curNil: true, in: in}, rotState{nextNil: true, in: in})
	for _, a := range []int{-1, 0, 1} {
		for _, b := range []int{-1, 0, 1} {
			for _, cc := range []int{-1, 0, 1} {
				for _, d := range []int{-1, 0, 1} {
					states = append(states, rotState{cNB: a, cNA: b, nNB: cc, nNA: d, in: in})
				}
			}
		}
	}
	// single clock reading
	if report {
		nows := callsNamed(fn, "time.Now")
		r.Check(len(nows) == 1, rule, name+" single clock reading", p.Pos(fn.Pos()), "one time.Now()", fmt.Sprintf("%d time.Now() calls: comparisons use different instants", len(nows)))
	}
	out := map[string]rotOutcome{}
	bad := 0
	var firstBad []string
	for _, s := range states {
		run := core.AbsExec(fn, s)
		if run.Err != "" {
			if report {
				r.Unk(rule, name+" state "+s.String(), p.Pos(fn.Pos()), run.Err)
			}
			return nil, false
		}
		mk, ok := evalKnownIds(run.Return.Results[0], run.Env)
		cv := core.ResolveEnv(run.Return.Results[1], run.Env)
		carry := "?"
		var evalCarry func(v ssa.Value, depth int)
		evalCarry = func(v ssa.Value, depth int) {
			if core.IsNilConst(v) {
				carry = ""
			} else if cp := core.PathOf(v); cp.Root == in && len(cp.Fields) == 1 {
				carry = cp.Fields[0]
			} else if depth < core.MaxSummaryDepth {
				// "return makeNext(in.Next)": a single-return helper or local closure
				if call, idx := core.CallResult(core.Strip(v)); call != nil && idx >= 0 {
					if h := core.ModuleCallee(call.Common()); h != nil {
						if rets := core.Returns(h); len(rets) == 1 && idx < len(rets[0].Results) {
							core.WithSubst(core.FrameSubst(call.Common(), h), func() {
								evalCarry(core.ReturnOperand(rets[0], idx), depth+1)
							})
						}
					}
				}
			}
		}
		evalCarry(cv, 0)
		if !ok || carry == "?" {
			if report {
				r.Unk(rule, name+" state "+s.String(), p.Pos(run.Return.Pos()), "cannot evaluate the returned list / carried root on this path")
			}
			return nil, false
		}
		o := rotOutcome{mk, carry}
		out[s.String()] = o
		acc := rotAccept(s)
		if !acc[o] {
			bad++
			var want []string
			for a := range acc {
				want = append(want, a.String())
			}
			sort.Strings(want)
			firstBad = append(firstBad, fmt.Sprintf("state {%s}: got %s, property allows {%s}", s.String(), o.String(), strings.Join(want, " | ")))
		}
	}
	if report {
		sort.Strings(firstBad)
		if bad == 0 {
			r.OK(rule, name+" decision table", p.Pos(fn.Pos()), fmt.Sprintf("all %d abstract states (nil combinations x 3^4 orderings of the stored instants against now) agree with the property's table", len(states)))
		} else {
			show := firstBad
			if len(show) > 6 {
				show = show[:6]
			}
			r.Bad(rule, name+" decision table", p.Pos(fn.Pos()), fmt.Sprintf("%d of %d abstract states disagree with the property's table", bad, len(states)), show...)
		}
	}
	return out, bad == 0
}

func c08(c *Ctx) {
	// "storage and the return value hold the same two roots" on the module's back ends needs the back
	// ends to return what was stored last: C19's rules, evaluated here too
	defer c19(c)
	r := c.R
	r.Rule("R-C08.1", "the decision function is executed abstractly on every combination of {record nil, current nil, next nil} and every ordering (<,=,>) of the four stored instants against now (85 states, exhaustive); each leaf (roots to make, root carried over) must be allowed by the property's table; tie states accept either strict refinement and the three safety post-conditions hold everywhere")
	r.Rule("R-C08.2", "minted template: NotBefore = now + WithNotBeforeClockSkew, NotAfter = now + WithCertificateLifetime + WithNotAfterClockSkew; when minting next both ends are shifted by time.Until(carried-or-new current.NotAfter)/2; stored timestamps are taken from the template after the shift")
	r.Rule("R-C08.3", "minted roots are self-signed CAs: IsCA, BasicConstraintsValid, CertSign usage, CreateCertificate(template, template, pub, priv) with pub/priv from one GenerateKey, PublicKeyPkix from that pub")
	r.Rule("R-C08.4", "wiring: result.Current is the carried root (relabelled current) or the new current, result.Next the new next; the no-change outcome returns the loaded roots and reaches no Store; the stored object is the returned object and is not written after Store")
	r.Rule("R-C08.5", "WithReinitializeRoots: the load is preceded by a successful Storage.Remove of the roots record")
	r.Rule("R-C08.6", "(*RootCertificates).Store refuses incomplete sets: Storage.Store is cut by non-nil current and next, and each of the two roots passes the private-key-present test in the validation loop")
	r.NotDecided = append(r.NotDecided, "'current is valid at that moment' as a wall-clock fact", "sequences of calls (C09)", "x509 encoding")
	runDecisionTable(c, "R-C08.1", true)
	c08Rotate(c, "R-C08")
	c08Store(c)
}

func c09(c *Ctx) {
	p, r := c.P, c.R
	r.Rule("R-C09.1", "every single-root outcome of the decision table carries an existing root (promotion or re-mint), never mints a new current alone (from the exhaustive table of R-C08.1)")
	r.Rule("R-C09.2", "the successor window starts at the midpoint of the carried root's remaining life (R-C08.2's shift form, evaluated here)")
	r.Rule("R-C09.3", "nodes get one certificate per server root with the root's own validity (R-C04.1, evaluated here)")
	r.Rule("R-C09.4", "in tls.ClientConfigs and tls.ServerConfig a bundle is used only if NOT(now > leaf.NotAfter), NOT(leaf.NotBefore > now), NOT(now > ca.NotAfter), NOT(ca.NotBefore > now), with one time.Now(); no other time comparison exists; both sides therefore apply the same four filters")
	r.NotDecided = append(r.NotDecided, "the continuity theorem itself (cadence bounds imply a valid trusted chain at every instant): arithmetic over real time", "jitter")
	out, ok := runDecisionTable(c, "R-C09.1", true)
	if ok {
		bad := []string{}
		for st, o := range out {
			if o.make == "next" && o.carry == "" {
				bad = append(bad, st)
			}
			if o.make == "current" {
				bad = append(bad, st)
			}
		}
		sort.Strings(bad)
		fn := decideFunc(c, "R-C09.1")
		r.Check(len(bad) == 0, "R-C09.1", "single-root outcomes carry an existing root", p.Pos(fn.Pos()), "every make[next] leaf carries current or next", "trust reset: states "+strings.Join(bad, "; "))
	}
	c08Rotate(c, "R-C09")
	c04Template(c)
	c09Filters(c)
	// holding a valid chain is useless unless the node can present it: the client-certificate callback considers every stored chain
	if CC := c.need("R-C07.7", "tls", "ClientConfigs"); CC != nil {
		r.Rule("R-C07.7", "the client-certificate callback of every client configuration ranges over all stored chains and all CAs the server lists (C07's rule, evaluated here: it is what lets a node use whichever of its chains the server still trusts)")
		c07ClientCert(c, CC)
	}
}

func c08Rotate(c *Ctx, rp string) {
	p, r := c.P, c.R
	full := rp == "R-C08"
	rule2 := rp + ".2"
	F := c.need(rule2, "rotation", "RotateRootCertificates")
	if F == nil {
		return
	}
	name := "rotation.RotateRootCertificates"
	// the minting may live in a helper / method the function was split into: the
	// template part of the rule is evaluated in that function, with its
	// parameters standing for the arguments
	createSites := core.SplitCalls(F, nil, "crypto/x509.CreateCertificate")
	if len(createSites) != 1 {
		r.Unk(rule2, name+" CreateCertificate", p.Pos(F.Pos()), fmt.Sprintf("%d minting calls, want 1", len(createSites)))
		return
	}
	cc := createSites[0].Instr.(*ssa.Call)
	M := createSites[0].Fn
	if M != F {
		r.Fn(core.FuncName(M))
	}
	proceed := false
	var ts map[string][]fieldStore
	var tmpl *ssa.Alloc
	var decide *ssa.Function
	var newRoot *ssa.Alloc
	var gNext core.Guard
	createSites[0].In(func() {
	var ok bool
	tmplCaller := core.Strip(cc.Call.Args[1])
	tmpl, ok = tmplCaller.(*ssa.Alloc)
	var helperStores []fieldStore
	var hsubst map[ssa.Value]ssa.Value
	inHelper := map[*ssa.Store]bool{}
	if !ok {
		// built by a helper: the literal the helper returns; its field values are
		// read with the helper's parameters standing for the arguments
		if vals, hs, h := helperResult(tmplCaller); h != nil && len(vals) == 1 {
			if al, isAl := core.Strip(vals[0]).(*ssa.Alloc); isAl {
				tmpl, ok = al, true
				helperStores = fieldStores(al)
				hsubst = hs
				r.Fn(core.FuncName(h))
			}
		}
	}
	if !ok {
		r.Unk(rule2, name+" template", p.Pos(cc.Pos()), "template is not a local literal")
		return
	}
	ts = storesOf(tmplCaller)
	for _, fs := range helperStores {
		ts[fs.Field] = append(ts[fs.Field], fs)
		inHelper[fs.St] = true
	}
	timeFormOf := func(fs fieldStore) core.TimeForm {
		var tf core.TimeForm
		if inHelper[fs.St] {
			core.WithSubst(hsubst, func() { tf = core.TimeFormOf(fs.Val) })
		} else {
			tf = core.TimeFormOf(fs.Val)
		}
		return tf
	}
	isTmpl := func(v ssa.Value) bool { return v == ssa.Value(tmpl) || v == tmplCaller }
	scc := sccOf(cc.Block())
	var header *ssa.BasicBlock
	if scc != nil {
		header = loopHeader(scc)
	}
	// kind == "next" guard
	gNext = core.Guard{Name: "kind == NextId", Match: func(cond ssa.Value) (int, bool) {
		bo, ok := cond.(*ssa.BinOp)
		if !ok {
			return 0, false
		}
		s, isC := core.ConstString(bo.Y)
		if !isC {
			s, isC = core.ConstString(bo.X)
		}
		if !isC || s != "next" {
			return 0, false
		}
		switch bo.Op.String() {
		case "==":
			return 0, true
		case "!=":
			return 1, true
		}
		return 0, false
	}}
	shiftTerms := map[string]string{}
	var shiftBlocks []*ssa.BasicBlock
	for _, f := range []string{"NotBefore", "NotAfter"} {
		var initForm, shiftForm *core.TimeForm
		var shiftSt *ssa.Store
		for _, s := range ts[f] {
			tf := timeFormOf(s)
			if tf.Base == "now" {
				t := tf
				initForm = &t
			} else if tf.Base == "field:"+f && isTmpl(tf.Root) {
				t := tf
				shiftForm = &t
				shiftSt = s.St
			} else {
				r.Bad(rule2, name+" template."+f+" unexpected store", p.Pos(s.St.Pos()), "template."+f+" = "+tf.String())
			}
		}
		wantInit := []string{"WithNotBeforeClockSkew"}
		if f == "NotAfter" {
			wantInit = []string{"WithCertificateLifetime", "WithNotAfterClockSkew"}
		}
		okInit := initForm != nil && core.FormIs("now", wantInit...)(*initForm)
		got := "<none>"
		if initForm != nil {
			got = initForm.String()
		}
		r.Check(okInit, rule2, name+" template."+f+" base window", p.Pos(tmpl.Pos()), f+" = now + "+strings.Join(wantInit, " + "), f+" = "+got+", expected now + "+strings.Join(wantInit, " + "))
		if shiftForm == nil || len(shiftForm.Terms) != 1 {
			r.Bad(rule2, name+" template."+f+" shift", p.Pos(tmpl.Pos()), "when minting next, "+f+" is not shifted by a single offset")
			continue
		}
		shiftTerms[f] = shiftForm.Terms[0]
		shiftBlocks = append(shiftBlocks, shiftSt.Block())
		res := core.CutReach(p, M, gNext, shiftSt.Block())
		r.CutOb(p, rule2, name+" template."+f+" shift only when minting next", p.Pos(shiftSt.Pos()), res, gNext)
	}
	// the shift term: (until(ts:NotAfter))/2 of the current root
	wantShift := "(until(ts:NotAfter))/2"
	r.Check(shiftTerms["NotBefore"] == wantShift && shiftTerms["NotAfter"] == wantShift, rule2, name+" shift = half of current's remaining life, both ends", p.Pos(tmpl.Pos()),
		"both ends shifted by time.Until(current.NotAfter)/2", fmt.Sprintf("NotBefore shift %q, NotAfter shift %q, expected %q for both", shiftTerms["NotBefore"], shiftTerms["NotAfter"], wantShift))
	// whose NotAfter: the root that will be current (carried or newly minted)
	decide = decideFunc(c, rule2)
	for _, mf := range []*ssa.Function{F, M} {
		for _, b := range mf.Blocks {
			for _, in := range b.Instrs {
				if al, ok := in.(*ssa.Alloc); ok && namedType(al.Type(), typesPkg, "RootCertificate") {
					newRoot = al
				}
			}
		}
	}
	okSrc := newRoot != nil
	isNewRoot := func(v ssa.Value) bool {
		pp := core.PathOf(v)
		return len(pp.Fields) == 0 && pp.Root == ssa.Value(newRoot)
	}
	nUntil := 0
	for _, uc := range callsNamed(M, "time.Until") {
		tf := core.TimeFormOf(uc.Call.Args[0])
		nUntil++
		for _, src := range flattenPhi(tf.Root) {
			if core.IsNilConst(src) || src == ssa.Value(newRoot) || isNewRoot(src) {
				continue
			}
			if dc, di := core.CallResult(src); dc != nil && di == 1 && dc.Common().StaticCallee() == decide {
				continue
			}
			okSrc = false
		}
	}
	r.Check(okSrc && nUntil == 1, rule2, name+" shift reference root", p.Pos(tmpl.Pos()), "remaining life of the root that becomes current (carried by the decision function or newly minted)", "the shift is not computed from the root that becomes current")
	// stamps after the shift
	for _, f := range []string{"NotBefore", "NotAfter"} {
		okSt := false
		for _, st := range storesToField(M, "types.RootCertificate", f) {
			if core.PathOf(st.Addr).Root != ssa.Value(newRoot) {
				continue
			}
			nc, _ := core.CallResult(core.Strip(st.Val))
			if nc == nil || core.CalleeName(nc.Common()) != "google.golang.org/protobuf/types/known/timestamppb.New" {
				continue
			}
			tf := core.TimeFormOf(nc.Call.Args[0])
			if tf.Base != "field:"+f || !isTmpl(tf.Root) || len(tf.Terms) != 0 {
				continue
			}
			okSt = true
			avoid := map[*ssa.BasicBlock]bool{}
			if header != nil {
				avoid[header] = true
			}
			for _, sb := range shiftBlocks {
				if sb != st.Block() && reachFrom(st.Block(), avoid)[sb] {
					okSt = false
				}
			}
		}
		r.Check(okSt, rule2, name+" stored "+f+" stamped after the shift", p.Pos(tmpl.Pos()), "root."+f+" = template."+f+" after the shift", "the stored "+f+" timestamp is not the template's final (shifted) value")
	}
	if !full {
		return
	}
	proceed = true

	// R-C08.3
	r3 := "R-C08.3"
	flag := func(f string) bool {
		if len(ts[f]) != 1 {
			return false
		}
		b, isB := core.ConstBool(ts[f][0].Val)
		return isB && b
	}
	r.Check(flag("IsCA") && flag("BasicConstraintsValid"), r3, name+" template CA flags", p.Pos(tmpl.Pos()), "IsCA and BasicConstraintsValid", "minted root is not marked as a CA")
	ku := false
	if len(ts["KeyUsage"]) == 1 {
		k, isK := core.ConstInt(ts["KeyUsage"][0].Val)
		ku = isK && k&32 != 0
	}
	r.Check(ku, r3, name+" template KeyUsage", p.Pos(tmpl.Pos()), "includes CertSign", "minted root cannot sign certificates")
	r.Check(isTmpl(core.Strip(cc.Call.Args[2])), r3, name+" self-signed", p.Pos(cc.Pos()), "parent is the template itself", "minted root is not self-signed")
	gk, gi := core.CallResult(core.Strip(cc.Call.Args[3]))
	gk2, gi2 := core.CallResult(core.Strip(cc.Call.Args[4]))
	okKey := gk != nil && gk == gk2 && gi == 0 && gi2 == 1 && core.CalleeName(gk.Common()) == "crypto/ed25519.GenerateKey"
	r.Check(okKey, r3, name+" key pair", p.Pos(cc.Pos()), "public and private key from one ed25519.GenerateKey", "certificate public key and signing key are not one generated pair")
	okPk := false
	for _, st := range append(storesToField(F, "types.RootCertificate", "PublicKeyPkix"), storesToFieldIf(M != F, M, "types.RootCertificate", "PublicKeyPkix")...) {
		sc, si := core.CallResult(core.Strip(st.Val))
		if sc != nil && si == 0 && core.CalleeName(sc.Common()) == mod+".SubjectKeyInfoAndKeyIdFromPubKey" && gk != nil && core.Strip(sc.Call.Args[0]) == extractOf(gk, 0) {
			okPk = true
		}
	}
	r.Check(okPk, r3, name+" PublicKeyPkix", p.Pos(cc.Pos()), "derived from the generated public key", "root.PublicKeyPkix is not the generated public key (it is the AAD of the sealed private key and the certificate selector)")
	okDer := false
	for _, st := range append(storesToField(F, "types.RootCertificate", "CertificateDer"), storesToFieldIf(M != F, M, "types.RootCertificate", "CertificateDer")...) {
		if core.Strip(st.Val) == extractOf(cc, 0) && core.PathOf(st.Addr).Root == ssa.Value(newRoot) {
			okDer = true
		}
	}
	r.Check(okDer, r3, name+" CertificateDer", p.Pos(cc.Pos()), "the minted certificate", "root.CertificateDer is not the minted certificate")

	})
	if !proceed {
		return
	}
	_ = tmpl
	_ = ts

	// R-C08.4
	r4 := "R-C08.4"
	var ret *ssa.Alloc
	for _, b := range F.Blocks {
		for _, in := range b.Instrs {
			if al, ok := in.(*ssa.Alloc); ok && namedType(al.Type(), typesPkg, "RootCertificates") {
				// the result literal is the one that is returned
				for _, rt := range core.SuccessReturns(F) {
					if core.Strip(rt.Results[0]) == ssa.Value(al) {
						ret = al
					}
				}
			}
		}
	}
	if ret == nil || decide == nil {
		r.Unk(r4, name+" result literal", p.Pos(F.Pos()), "no returned RootCertificates literal")
		return
	}
	rs := storesOf(ret)
	okCur := len(rs["Current"]) == 1
	if okCur {
		for _, src := range flattenPhi(rs["Current"][0].Val) {
			if src == ssa.Value(newRoot) {
				continue
			}
			if dc, di := core.CallResult(src); dc != nil && di == 1 && dc.Common().StaticCallee() == decide {
				continue
			}
			okCur = false
		}
	}
	r.Check(okCur, r4, name+" result.Current", p.Pos(ret.Pos()), "the carried root or the newly minted current", "result.Current is neither the root carried by the decision function nor a newly minted root")
	okNext := len(rs["Next"]) == 1
	if okNext {
		for _, src := range flattenPhi(rs["Next"][0].Val) {
			if src == ssa.Value(newRoot) || core.IsNilConst(src) {
				continue
			}
			okNext = false
		}
	}
	r.Check(okNext, r4, name+" result.Next", p.Pos(ret.Pos()), "a newly minted root", "result.Next is not a newly minted root (e.g. the old next is kept)")
	// labels
	lab := map[string]bool{}
	for _, st := range storesToField(F, "types.RootCertificate", "Id") {
		s, _ := core.ConstString(core.Strip(st.Val))
		root := core.PathOf(st.Addr).Root
		if root == ssa.Value(newRoot) {
			res := core.CutReach(p, F, gNext, st.Block())
			if s == "next" && !res.Reachable && len(res.Instances) > 0 {
				lab["new-next"] = true
			}
			gCur := core.Guard{Name: "kind != NextId", Match: func(cond ssa.Value) (int, bool) { s, ok := gNext.Match(cond); return 1 - s, ok }}
			res = core.CutReach(p, F, gCur, st.Block())
			if s == "current" && !res.Reachable && len(res.Instances) > 0 {
				lab["new-current"] = true
			}
		} else if dc, di := core.CallResult(root); dc != nil && di == 1 && dc.Common().StaticCallee() == decide && s == "current" {
			lab["carried-current"] = true
		}
	}
	r.Check(lab["new-next"] && lab["new-current"] && lab["carried-current"], r4, name+" root labels", p.Pos(F.Pos()),
		"new roots are labelled by kind and the carried root is relabelled current", fmt.Sprintf("root Id labelling incomplete: %v", lab))
	// which new root goes where: phi edge provenance is covered by labels + sources; the no-change outcome
	dcall := callsTo(F, decide)
	if len(dcall) == 1 {
		mk := extractOf(dcall[0], 0)
		gEmpty := core.LenEquals("len(toMake)==0", func(pp core.Path) bool { return pp.Root == mk && len(pp.Fields) == 0 }, 0)
		cg := core.BuildCallGraph(p)
		for _, b := range F.Blocks {
			ifi, ok := b.Instrs[len(b.Instrs)-1].(*ssa.If)
			if !ok {
				continue
			}
			s, m := core.MatchCond(gEmpty, ifi.Cond, nil)
			if !m {
				continue
			}
			head := b.Succs[s]
			bad := ""
			for x := range reachFrom(head, nil) {
				for _, in := range x.Instrs {
					if ci, ok := in.(ssa.CallInstruction); ok && cg.CallEffects(ci)[core.EffStore] {
						bad = p.Pos(in.Pos())
					}
					if rt, ok := in.(*ssa.Return); ok && core.ReturnErrKind(rt, 1) != core.ErrNonNil {
						lc, li := core.CallResult(core.Strip(rt.Results[0]))
						if lc == nil || li != 0 || core.CalleeName(lc.Common()) != typesPkg+".LoadRootCertificates" {
							bad = p.Pos(rt.Pos()) + " (returns something other than the loaded roots)"
						}
					}
				}
			}
			r.Check(bad == "", r4, name+" no-change outcome", p.Pos(ifi.Cond.Pos()), "returns the loaded roots and reaches no Store", "the no-change outcome writes storage or returns a different set: "+bad)
		}
	}
	// stored object = returned object, no writes after Store
	store := p.Func("types", "(*RootCertificates).Store")
	for i, sc := range callsTo(F, store) {
		r.Check(core.Strip(sc.Call.Args[0]) == ssa.Value(ret), r4, fmt.Sprintf("%s Store#%d receiver", name, i), p.Pos(sc.Pos()), "the returned set is what is stored", "a different object than the returned root set is stored")
		var late []string
		for _, fs := range fieldStores(ret) {
			for _, s := range sc.Block().Succs {
				if reachFrom(s, nil)[fs.St.Block()] {
					late = append(late, fs.Field)
				}
			}
		}
		r.Check(len(late) == 0, r4, fmt.Sprintf("%s Store#%d no later writes", name, i), p.Pos(sc.Pos()), "result not modified after Store", "result fields written after Store: "+strings.Join(late, ","))
	}

	// R-C08.5
	loads := callsNamed(F, typesPkg+".LoadRootCertificates")
	g5 := core.AnyOf("not reinitialising, or Storage.Remove(roots) succeeded",
		core.FlagClear("opts.WithReinitializeRoots", core.AnyRootField("WithReinitializeRoots")),
		core.ErrNil("Storage.Remove", func(x *ssa.Call) bool {
			eff, ok := core.StorageMethod(x.Common())
			return ok && eff == core.EffRemove
		}))
	for i, lc := range loads {
		res := core.CutReach(p, F, g5, lc.Block())
		r.CutOb(p, "R-C08.5", fmt.Sprintf("%s LoadRootCertificates#%d", name, i), p.Pos(lc.Pos()), res, g5)
	}
	if len(loads) == 0 {
		r.Unk("R-C08.5", name+" load", p.Pos(F.Pos()), "no LoadRootCertificates call")
	}
}

// perIterationGuard: inside the loop (scc, header h) no iteration can return
// to the header without crossing a success edge of g.
func perIterationGuard(p *core.Prog, fn *ssa.Function, scc map[*ssa.BasicBlock]bool, h *ssa.BasicBlock, g core.Guard) (bool, int) {
	inst := 0
	ok := true
	for _, s := range h.Succs {
		if !scc[s] {
			continue
		}
		avoid := map[*ssa.BasicBlock]bool{}
		for _, b := range fn.Blocks {
			if !scc[b] {
				avoid[b] = true
			}
		}
		res := core.CutReachFrom(p, fn, s, g, avoid, h)
		inst += len(res.Instances)
		if res.Reachable {
			ok = false
		}
	}
	return ok, inst
}

func c08Store(c *Ctx) {
	p, r := c.P, c.R
	S := c.need("R-C08.6", "types", "(*RootCertificates).Store")
	if S == nil {
		return
	}
	name := core.FuncName(S)
	recv := ssa.Value(S.Params[0])
	var stCall *ssa.Call
	for _, ci := range core.AllCalls(S) {
		if eff, ok := core.StorageMethod(ci.Common()); ok && eff == core.EffStore {
			stCall, _ = ci.(*ssa.Call)
		}
	}
	if stCall == nil {
		r.Unk("R-C08.6", name+" Storage.Store", p.Pos(S.Pos()), "not found")
		return
	}
	for _, f := range []string{"Current", "Next"} {
		g := core.NilTest("r."+f+" non-nil", core.FieldOf(recv, f), false)
		res := core.CutReach(p, S, g, stCall.Block())
		r.CutOb(p, "R-C08.6", name+" requires "+f, p.Pos(stCall.Pos()), res, g)
	}
	// validation loop over {r.Current, r.Next}
	gKey := core.NonEmpty("root.PrivateKeyPkcs8", func(pp core.Path) bool {
		if !pp.HasFields("PrivateKeyPkcs8") {
			return false
		}
		rr, ok := rangeOverRootPair(pp.Root)
		return ok && rr == recv
	})
	found := false
	for _, b := range S.Blocks {
		ifi, ok := b.Instrs[len(b.Instrs)-1].(*ssa.If)
		if !ok {
			continue
		}
		if _, m := core.MatchCond(gKey, ifi.Cond, nil); !m {
			continue
		}
		scc := sccOf(b)
		if scc == nil {
			continue
		}
		h := loopHeader(scc)
		if h == nil {
			continue
		}
		found = true
		okIter, _ := perIterationGuard(p, S, scc, h, gKey)
		passes := !reachFrom(S.Blocks[0], map[*ssa.BasicBlock]bool{h: true})[stCall.Block()]
		r.Check(okIter && passes, "R-C08.6", name+" private keys present", p.Pos(ifi.Cond.Pos()),
			"every path to Storage.Store runs the validation loop over {current,next} and each iteration requires a private key", "a root without a private key can be stored (validation loop skippable or an iteration passes without the key test)")
	}
	if !found {
		r.Bad("R-C08.6", name+" private keys present", p.Pos(S.Pos()), "no per-root private-key test over {r.Current, r.Next} found")
	}
}

func c09Filters(c *Ctx) {
	p, r := c.P, c.R
	for _, nm := range []string{"ClientConfigs", "ServerConfig"} {
		fn := c.need("R-C09.4", "tls", nm)
		if fn == nil {
			continue
		}
		name := "tls." + nm
		nows := callsNamed(fn, "time.Now")
		r.Check(len(nows) == 1, "R-C09.4", name+" single clock reading", p.Pos(fn.Pos()), "one time.Now()", fmt.Sprintf("%d clock readings", len(nows)))
		certOf := func(t core.TimeForm, field, der string) bool {
			if t.Base != "field:"+field || len(t.Terms) != 0 {
				return false
			}
			pc, pi := core.CallResult(core.Strip(t.Root))
			if pc == nil || pi != 0 || core.CalleeName(pc.Common()) != "crypto/x509.ParseCertificate" {
				return false
			}
			return core.PathOf(pc.Call.Args[0]).Last() == der
		}
		isNow := func(t core.TimeForm) bool { return t.Base == "now" && len(t.Terms) == 0 }
		gs := []core.Guard{}
		for _, who := range [][2]string{{"leaf", "CertificateDer"}, {"ca", "CaCertificateDer"}} {
			der := who[1]
			gs = append(gs,
				core.TimeNotGreater("now > "+who[0]+".NotAfter", isNow, func(t core.TimeForm) bool { return certOf(t, "NotAfter", der) }),
				core.TimeNotGreater(who[0]+".NotBefore > now", func(t core.TimeForm) bool { return certOf(t, "NotBefore", der) }, isNow))
		}
		// sinks: AddCert on the pool
		var sinks []*ssa.Call
		for _, ac := range callsNamed(fn, "(*crypto/x509.CertPool).AddCert") {
			sinks = append(sinks, ac)
		}
		if len(sinks) == 0 {
			r.Unk("R-C09.4", name+" trust-pool insertion", p.Pos(fn.Pos()), "no CertPool.AddCert call")
			continue
		}
		for i, sk := range sinks {
			// the loop body: traversal from the loop header's body successor is not needed, the filters sit between header and sink
			for _, g := range gs {
				res := core.CutReach(p, fn, g, sk.Block())
				r.CutOb(p, "R-C09.4", fmt.Sprintf("%s AddCert#%d filter=%s", name, i, g.Name), p.Pos(sk.Pos()), res, g)
			}
		}
		// counted per call chain: a comparison inside a helper counts once for
		// every call of the helper
		nrel := len(core.DeepFind(fn, core.MaxSummaryDepth, func(in ssa.Instruction) bool {
			cc, ok := in.(*ssa.Call)
			if !ok {
				return false
			}
			_, ok = core.TimeRelOf(cc)
			return ok
		}))
		r.Check(nrel == 4, "R-C09.4", name+" number of time comparisons", p.Pos(fn.Pos()), "exactly the four validity filters", fmt.Sprintf("%d time comparisons, expected 4 (an extra, missing or duplicated filter)", nrel))
	}
}


func storesToFieldIf(cond bool, fn *ssa.Function, typ, field string) []*ssa.Store {
	if !cond {
		return nil
	}
	return storesToField(fn, typ, field)
}
