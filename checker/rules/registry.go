// Package rules holds one rule set per property of /verif/properties.jsonl.
package rules

import (
	"nechk/core"

	"golang.org/x/tools/go/ssa"
)

// Ctx is what a rule set gets.
type Ctx struct {
	P    *core.Prog
	R    *core.Report
	Tier string
}

// RuleSet evaluates all rules of one property.
type RuleSet func(*Ctx)

// All maps property ids to rule sets.
var All = map[string]RuleSet{}

const (
	mod      = core.ModulePath
	typesPkg = core.ModulePath + "/types"
)

// need resolves a function anchor or records an undecided obligation.
func (c *Ctx) need(rule, rel, name string) *ssa.Function {
	fn := c.P.Func(rel, name)
	if fn == nil || fn.Blocks == nil {
		c.R.Unk(rule, "anchor "+rel+"."+name, "", "anchor function not found (renamed or removed): the rule cannot be evaluated")
		return nil
	}
	c.R.Fn(core.FuncName(fn))
	return fn
}
