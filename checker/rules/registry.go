// Package rules holds one rule set per property of /verif/properties.jsonl.
package rules

import (
	"fmt"
	"go/token"
	"go/types"
	"sort"
	"strings"

	"nechk/core"

	"golang.org/x/tools/go/ssa"
)

// Ctx is what a rule set gets.
type Ctx struct {
	P    *core.Prog
	R    *core.Report
	Tier string
	// Anchors collects the functions the rule set resolved through need.
	Anchors []*ssa.Function
}

// RuleSet evaluates all rules of one property.
type RuleSet func(*Ctx)

// All maps property ids to rule sets.
var All = map[string]RuleSet{}

const (
	mod      = core.ModulePath
	typesPkg = core.ModulePath + "/types"
)

// need resolves a function anchor or records an undecided obligation.
func (c *Ctx) need(rule, rel, name string) *ssa.Function {
	fn := c.P.Func(rel, name)
	if fn == nil || fn.Blocks == nil {
		// an unexported anchor that was merely renamed: the unique function with its recorded signature
		if rf, ok := c.P.FuncRenamed(rel, name); ok {
			c.R.Fn(core.FuncName(rf))
			c.R.Notes = append(c.R.Notes, "anchor "+rel+"."+name+" resolved by signature as "+core.FuncName(rf)+" (renamed)")
			c.Anchors = append(c.Anchors, rf)
			return rf
		}
	}
	if fn == nil || fn.Blocks == nil {
		c.R.Unk(rule, "anchor "+rel+"."+name, "", "anchor function not found (renamed or removed): the rule cannot be evaluated")
		return nil
	}
	c.R.Fn(core.FuncName(fn))
	c.Anchors = append(c.Anchors, fn)
	return fn
}

// NoSharedState is evaluated after every rule set: the functions the property
// is anchored in, and everything they reach in the module, keep no state in
// package-level variables. Each property quantifies over histories in which
// the outcome is a function of the request, the options and storage; a
// process-global cache, memo or counter is a second store that the rules of
// the property do not see (a value read from it is not the stored record the
// guards were checked against), so its presence leaves the property undecided.
func NoSharedState(c *Ctx, prop string) {
	rule := "R-" + prop + ".G"
	c.R.Rule(rule, "no package-level mutable state (assigned variable, sync.Map/mutex-guarded map, container updated in place) is reachable in the module call graph from the functions this property is anchored in: outcomes depend only on the request, the options and storage")
	// every function the rule set analysed counts as an anchor
	roots := append([]*ssa.Function{}, c.Anchors...)
	for _, fn := range c.P.ModuleFuncs() {
		if c.R.Functions[core.FuncName(fn)] {
			roots = append(roots, fn)
		}
	}
	if len(roots) == 0 {
		return
	}
	cg := core.BuildCallGraph(c.P)
	found := core.SharedStateReachable(c.P, cg, roots)
	if len(found) == 0 {
		c.R.OK(rule, "package-level state reachable from the anchors", "", "none: only error sentinels and interface assertions are declared at package level")
		return
	}
	for _, f := range found {
		c.R.Unk(rule, "package-level state "+f[:strings.Index(f, " (")], "", "process-global mutable state reachable from the property's functions: "+f+"; what it caches or counts is not governed by any rule of this property (stale authority, cross-connection leakage)")
	}
}

// SharedUtilities is evaluated after every rule set: the small shared pieces
// every anchored function takes for granted - option delivery (GetOpts and the
// With* constructors), IsNil, the known-ALPN predicate, the temporary-error
// wrapper - keep the meaning the rules of each property assume. They are
// read from the repository's own code; each is one obligation per construct.
func SharedUtilities(c *Ctx, prop string) {
	rule := "R-" + prop + ".U"
	p, r := c.P, c.R
	r.Rule(rule, "shared utilities keep their meaning: GetOpts applies every non-nil option of the whole list in order (a nil option is skipped, never ends the loop); every With* constructor stores exactly its argument into the field of its name on its only path (frozen exceptions: WithCertificateLifetime 0 -> default, WithAlpnProtoPrefix validates against the three known prefixes, WithExtraAlpnProtos may copy); IsNil reports nil only for the nil-able kinds; ContainsKnownAlpnProto tests nothing but the three known prefixes; the value temperror.New returns has Temporary() in its method set")
	root := p.Pkg("")
	if root == nil {
		r.Unk(rule, "root package", "", "not loaded")
		return
	}
	// --- GetOpts
	if g := p.Func("", "GetOpts"); g != nil && g.Blocks != nil {
		bad := ""
		nNil := 0
		for _, b := range g.Blocks {
			ifi, ok := b.Instrs[len(b.Instrs)-1].(*ssa.If)
			if !ok {
				continue
			}
			bo, isBo := ifi.Cond.(*ssa.BinOp)
			switch {
			case isBo && bo.Op == token.LSS:
				// range bound: i < len(opt)
				lc, isLen := bo.Y.(*ssa.Call)
				if !isLen || core.CalleeName(lc.Common()) != "builtin:len" || core.Strip(lc.Call.Args[0]) != ssa.Value(g.Params[0]) {
					bad = "loop bound at " + p.Pos(ifi.Pos()) + " is not i < len(opt)"
				}
			case isBo && (bo.Op == token.EQL || bo.Op == token.NEQ) && (core.IsNilConst(bo.X) || core.IsNilConst(bo.Y)):
				other := bo.X
				if core.IsNilConst(bo.X) {
					other = bo.Y
				}
				if _, isElem := elemOf(core.Strip(other)); isElem {
					// nil option: the nil edge must stay in the loop (continue)
					nNil++
					nilEdge := b.Succs[0]
					if bo.Op == token.NEQ {
						nilEdge = b.Succs[1]
					}
					scc := sccOf(b)
					if scc == nil || !scc[nilEdge] {
						bad = "a nil option at " + p.Pos(ifi.Pos()) + " leaves the loop: the options after it are ignored"
					}
				}
				// err != nil of the option call: returns the error (not checked further here)
			default:
				bad = "unexpected condition in GetOpts at " + p.Pos(ifi.Pos()) + " (" + ifi.Cond.String() + "): options may be skipped"
			}
		}
		// every option is invoked: a dynamic call of the range element
		invoked := false
		for _, ci := range core.AllCalls(g) {
			if ci.Common().StaticCallee() == nil && !ci.Common().IsInvoke() {
				if _, isElem := elemOf(core.Strip(ci.Common().Value)); isElem {
					invoked = true
				}
			}
		}
		if !invoked && bad == "" {
			bad = "GetOpts does not invoke the options it ranges over"
		}
		r.Check(bad == "", rule, "nodeenrollment.GetOpts applies every option", p.Pos(g.Pos()), fmt.Sprintf("range over the whole list, nil skipped (%d test), each invoked", nNil), bad)
	} else {
		r.Unk(rule, "nodeenrollment.GetOpts", "", "not found")
	}
	// --- With* constructors
	exceptions := map[string]string{"WithCertificateLifetime": "zero means the default lifetime", "WithAlpnProtoPrefix": "validated against the three known prefixes", "WithExtraAlpnProtos": "may store an exact copy (R-C16.5)"}
	var names []string
	for name := range root.Members {
		names = append(names, name)
	}
	sort.Strings(names)
	nCons := 0
	for _, name := range names {
		fn, ok := root.Members[name].(*ssa.Function)
		if !ok || !strings.HasPrefix(name, "With") || fn.Blocks == nil || fn.Signature.Results().Len() != 1 || !namedType(fn.Signature.Results().At(0).Type(), mod, "Option") {
			continue
		}
		nCons++
		construct := "nodeenrollment." + name + " stores its argument"
		if len(fn.AnonFuncs) != 1 || len(fn.Params) != 1 {
			r.Bad(rule, construct, p.Pos(fn.Pos()), "the constructor is not a single closure over a single argument")
			continue
		}
		cl := fn.AnonFuncs[0]
		arg := freeVar(cl, fn.Params[0].Name())
		bad := ""
		nStores := 0
		for _, b := range cl.Blocks {
			for _, in := range b.Instrs {
				st, isSt := in.(*ssa.Store)
				if !isSt {
					continue
				}
				fa, isFA := st.Addr.(*ssa.FieldAddr)
				if !isFA {
					continue
				}
				tn, f := core.FieldAddrName(fa)
				if tn != "nodeenrollment.Options" {
					continue
				}
				nStores++
				if f != name {
					bad = "writes Options." + f
				}
				vp := core.PathOf(st.Val)
				isArg := arg != nil && vp.Root == ssa.Value(arg) && len(vp.Fields) == 0
				if !isArg {
					if _, exc := exceptions[name]; !exc {
						bad = "stores " + core.ValueName(core.Strip(st.Val)) + ", not its argument"
					} else if name == "WithCertificateLifetime" {
						// the argument, a constant, or a local of the constructor that only ever holds one of the two
						okVal := false
						if _, isConst := core.Strip(st.Val).(*ssa.Const); isConst {
							okVal = true
						}
						// a local of the closure that is the argument or the default
						if ph, isPhi := core.Strip(st.Val).(*ssa.Phi); isPhi {
							okVal = true
							for _, e := range flattenPhi(ph) {
								_, isConst := e.(*ssa.Const)
								ep := core.PathOf(e)
								if !isConst && !(arg != nil && ep.Root == ssa.Value(arg) && len(ep.Fields) == 0) {
									okVal = false
								}
							}
						}
						if fv, isFv := vp.Root.(*ssa.FreeVar); isFv && len(vp.Fields) == 0 {
							for _, mc := range closuresCreating(fn, cl) {
								for i, b := range mc.Bindings {
									if i < len(cl.FreeVars) && cl.FreeVars[i] == fv {
										if al, isAl := b.(*ssa.Alloc); isAl {
											okVal = true
											for _, ref := range *al.Referrers() {
												if s2, isSt := ref.(*ssa.Store); isSt && s2.Addr == ssa.Value(al) {
													sv := core.Strip(s2.Val)
													_, isConst := sv.(*ssa.Const)
													sp := core.PathOf(sv)
													isParam := sp.Root == ssa.Value(fn.Params[0]) || sv == ssa.Value(fn.Params[0])
													if !isConst && !isParam {
														okVal = false
													}
												}
											}
										}
									}
								}
							}
						}
						if !okVal {
							bad = "stores " + core.ValueName(core.Strip(st.Val))
						}
					}
				}
			}
		}
		if _, exc := exceptions[name]; !exc || name == "WithExtraAlpnProtos" {
			// the argument is captured as given: the constructor itself does not branch on it or re-assign it
			nAssign := 0
			for _, b := range fn.Blocks {
				for _, in := range b.Instrs {
					if st, isSt := in.(*ssa.Store); isSt {
						if al, isAl := st.Addr.(*ssa.Alloc); isAl && al.Comment == fn.Params[0].Name() {
							nAssign++
						}
					}
				}
			}
			if (len(fn.Blocks) != 1 || nAssign > 1) && name != "WithExtraAlpnProtos" {
				bad = "the constructor replaces or wraps its argument before capturing it"
			}
		}
		if _, exc := exceptions[name]; !exc {
			if len(cl.Blocks) != 1 {
				bad = "the option is applied conditionally (" + fmt.Sprint(len(cl.Blocks)) + " blocks): some argument values are replaced or ignored"
			}
			if nStores != 1 && bad == "" {
				bad = fmt.Sprintf("%d stores into Options", nStores)
			}
		} else if nStores == 0 {
			bad = "never stores its argument"
		}
		okDesc := "o." + name + " = argument, unconditionally"
		if why, exc := exceptions[name]; exc {
			okDesc = "reviewed exception: " + why
		}
		r.Check(bad == "", rule, construct, p.Pos(fn.Pos()), okDesc, "option constructor "+name+" "+bad+": callers configure one value and the library uses another")
	}
	if nCons == 0 {
		r.Unk(rule, "option constructors", "", "no With* constructor found")
	}
	// --- IsNil: only nil-able kinds
	if isn := p.Func("", "IsNil"); isn != nil && isn.Blocks != nil {
		allowed := map[int64]bool{17: true, 18: true, 19: true, 20: true, 21: true, 22: true, 23: true, 26: true} // Array (as today), Chan, Func, Interface, Map, Pointer, Slice, UnsafePointer
		bad := ""
		for _, f := range core.DeepFuncs(isn, core.MaxSummaryDepth) {
			if f != isn && f.Pkg != isn.Pkg {
				continue
			}
			for _, b := range f.Blocks {
				for _, in := range b.Instrs {
					bo, ok := in.(*ssa.BinOp)
					if !ok || bo.Op != token.EQL {
						continue
					}
					for _, side := range []ssa.Value{bo.X, bo.Y} {
						if k, isK := core.ConstInt(side); isK && strings.HasSuffix(side.Type().String(), "reflect.Kind") && !allowed[k] {
							bad = fmt.Sprintf("handles reflect.Kind %d at %s (not a nil-able kind): a non-nil value can be reported as nil", k, p.Pos(bo.Pos()))
						}
					}
				}
			}
			if f != isn {
				bad2 := "IsNil delegates to " + core.FuncName(f)
				_ = bad2
			}
		}
		r.Check(bad == "", rule, "nodeenrollment.IsNil kinds", p.Pos(isn.Pos()), "true only for a nil interface or a nil chan/func/interface/map/pointer/slice", bad)
	}
	// --- ContainsKnownAlpnProto: only prefix tests
	if ck := p.Func("", "ContainsKnownAlpnProto"); ck != nil && ck.Blocks != nil {
		bad := ""
		n := 0
		// the function, its closures, module helpers it calls and module functions it hands to slices.* helpers
		fset := map[*ssa.Function]bool{ck: true}
		work := []*ssa.Function{ck}
		for len(work) > 0 {
			f := work[0]
			work = work[1:]
			add := func(h *ssa.Function) {
				if h != nil && h.Blocks != nil && core.InModule(h) && !fset[h] && len(fset) < 8 {
					fset[h] = true
					work = append(work, h)
				}
			}
			for _, af := range f.AnonFuncs {
				add(af)
			}
			for _, ci := range core.AllCalls(f) {
				add(core.ModuleCallee(ci.Common()))
				for _, a := range ci.Common().Args {
					add(fnValue(core.Strip(a)))
				}
			}
		}
		var blocks []*ssa.BasicBlock
		for f := range fset {
			blocks = append(blocks, f.Blocks...)
		}
		for _, b := range blocks {
			ifi, ok := b.Instrs[len(b.Instrs)-1].(*ssa.If)
			if !ok {
				continue
			}
			if hc, isCall := ifi.Cond.(*ssa.Call); isCall && core.CalleeName(hc.Common()) == "strings.HasPrefix" {
				if _, isC := core.ConstString(hc.Call.Args[1]); isC {
					n++
					continue
				}
			}
			if bo, isBo := ifi.Cond.(*ssa.BinOp); isBo && bo.Op == token.LSS {
				if lc, isLen := bo.Y.(*ssa.Call); isLen && core.CalleeName(lc.Common()) == "builtin:len" {
					continue // range bound
				}
			}
			bad = "extra condition at " + p.Pos(ifi.Pos()) + " (" + ifi.Cond.String() + "): some known protocol values are not recognised"
		}
		r.Check(bad == "" && n >= 1, rule, "nodeenrollment.ContainsKnownAlpnProto conditions", p.Pos(ck.Pos()), fmt.Sprintf("%d constant-prefix tests and the range bound only", n), bad)
	}
	// --- temperror.New: the returned value's type has Temporary()
	if nf := p.Func("util/temperror", "New"); nf != nil && nf.Blocks != nil && nf.Signature.Results().Len() == 1 {
		rt := nf.Signature.Results().At(0).Type()
		found := false
		if _, isIface := rt.Underlying().(*types.Interface); isIface {
			// returned as an interface: every concrete value put into it must have the method
			found = true
			for _, ret := range core.Returns(nf) {
				for _, src := range flattenPhi(ret.Results[0]) {
					if mi, ok := src.(*ssa.MakeInterface); ok {
						ms := p.SSA.MethodSets.MethodSet(mi.X.Type())
						has := false
						for i := 0; i < ms.Len(); i++ {
							if ms.At(i).Obj().Name() == "Temporary" {
								has = true
							}
						}
						if !has {
							found = false
						}
					}
				}
			}
		} else {
			ms := p.SSA.MethodSets.MethodSet(rt)
			for i := 0; i < ms.Len(); i++ {
				if ms.At(i).Obj().Name() == "Temporary" {
					found = true
				}
			}
		}
		r.Check(found, rule, "temperror.New result implements Temporary()", p.Pos(nf.Pos()), "Temporary() is in the method set of the returned type "+rt.String(),
			"the value temperror.New returns (type "+rt.String()+") has no Temporary() method in its method set: the interface{ Temporary() bool } assertion of accept loops fails and one rejected connection stops the listener")
	}
}
