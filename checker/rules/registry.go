// Package rules holds one rule set per property of /verif/properties.jsonl.
package rules

import (
	"strings"

	"nechk/core"

	"golang.org/x/tools/go/ssa"
)

// Ctx is what a rule set gets.
type Ctx struct {
	P    *core.Prog
	R    *core.Report
	Tier string
	// Anchors collects the functions the rule set resolved through need.
	Anchors []*ssa.Function
}

// RuleSet evaluates all rules of one property.
type RuleSet func(*Ctx)

// All maps property ids to rule sets.
var All = map[string]RuleSet{}

const (
	mod      = core.ModulePath
	typesPkg = core.ModulePath + "/types"
)

// need resolves a function anchor or records an undecided obligation.
func (c *Ctx) need(rule, rel, name string) *ssa.Function {
	fn := c.P.Func(rel, name)
	if fn == nil || fn.Blocks == nil {
		// an unexported anchor that was merely renamed: the unique function with its recorded signature
		if rf, ok := c.P.FuncRenamed(rel, name); ok {
			c.R.Fn(core.FuncName(rf))
			c.R.Notes = append(c.R.Notes, "anchor "+rel+"."+name+" resolved by signature as "+core.FuncName(rf)+" (renamed)")
			c.Anchors = append(c.Anchors, rf)
			return rf
		}
	}
	if fn == nil || fn.Blocks == nil {
		c.R.Unk(rule, "anchor "+rel+"."+name, "", "anchor function not found (renamed or removed): the rule cannot be evaluated")
		return nil
	}
	c.R.Fn(core.FuncName(fn))
	c.Anchors = append(c.Anchors, fn)
	return fn
}

// NoSharedState is evaluated after every rule set: the functions the property
// is anchored in, and everything they reach in the module, keep no state in
// package-level variables. Each property quantifies over histories in which
// the outcome is a function of the request, the options and storage; a
// process-global cache, memo or counter is a second store that the rules of
// the property do not see (a value read from it is not the stored record the
// guards were checked against), so its presence leaves the property undecided.
func NoSharedState(c *Ctx, prop string) {
	rule := "R-" + prop + ".G"
	c.R.Rule(rule, "no package-level mutable state (assigned variable, sync.Map/mutex-guarded map, container updated in place) is reachable in the module call graph from the functions this property is anchored in: outcomes depend only on the request, the options and storage")
	// every function the rule set analysed counts as an anchor
	roots := append([]*ssa.Function{}, c.Anchors...)
	for _, fn := range c.P.ModuleFuncs() {
		if c.R.Functions[core.FuncName(fn)] {
			roots = append(roots, fn)
		}
	}
	if len(roots) == 0 {
		return
	}
	cg := core.BuildCallGraph(c.P)
	found := core.SharedStateReachable(c.P, cg, roots)
	if len(found) == 0 {
		c.R.OK(rule, "package-level state reachable from the anchors", "", "none: only error sentinels and interface assertions are declared at package level")
		return
	}
	for _, f := range found {
		c.R.Unk(rule, "package-level state "+f[:strings.Index(f, " (")], "", "process-global mutable state reachable from the property's functions: "+f+"; what it caches or counts is not governed by any rule of this property (stale authority, cross-connection leakage)")
	}
}
