package rules

import (
	"fmt"
	"sort"
	"strings"

	"nechk/core"

	"golang.org/x/tools/go/ssa"
)

func init() { All["C13"] = c13 }

// packages whose call sites are subject to the error discipline
var c13Scope = map[string]bool{
	mod + "/registration": true, mod + "/rotation": true, mod + "/tls": true, mod + "/types": true, mod + "/protocol": true, mod: true,
}

var storageEffects = []string{core.EffStore, core.EffLoad, core.EffRemove, core.EffList, core.EffLoadBy}

func hasStorageEffect(e map[string]bool) bool {
	for _, k := range storageEffects {
		if e[k] {
			return true
		}
	}
	return false
}

// c13Allowed lists reviewed constructs (caller + callee) whose error is
// deliberately not propagated, one reason each.
var c13Allowed = map[string]string{
	"registration.<token validator> -> types.LoadNodeInformation": "existing-record probe: a failing load lets enrollment proceed and the call then completes with a record that is persisted, which C13 allows (DESIGN 4.3)",
}

func c13(c *Ctx) {
	p, r := c.P, c.R
	r.Rule("R-C13.1", "every call site (packages registration, rotation, tls, types, protocol, root) of a function that may reach a Storage method - the interface methods themselves, typed helpers, and the listener's function fields - has its error result tested or returned, and from the failure edge no success return is reachable except over errors.Is(err, ErrNotFound) (absence is a legitimate state) or after a successful reload (duplicate record); discards and never-tested errors are violations")
	r.Rule("R-C13.2", "in each creator (root rotation, authorisation helper, token creation, NewNodeCredentials, HandleFetchNodeCredentialsResponse) every success return of a freshly built payload is cut by success of payload.Store(...) or by opts.WithSkipStorage; payloads that were themselves loaded from storage are exempt")
	r.Rule("R-C13.3", "the fetch response is built only from a record that came from a load or from a helper satisfying R-C13.2 (R-C01.2's provenance, evaluated here)")
	r.Rule("R-C13.4", "a token is removed before it is used to authorise and a failed removal reaches only error returns")
	r.Rule("R-C13.5", "Storage.Remove is invoked only on the activation token just loaded and on the roots record under WithReinitializeRoots")
	r.NotDecided = append(r.NotDecided, "atomicity inside a back end", "multi-fault sequences", "that an error return leaves no partial external effect beyond the ordering rules")

	cg := core.BuildCallGraph(p)
	nSites := 0
	for _, fn := range p.ModuleFuncs() {
		pk := fn.Package()
		if pk == nil && fn.Parent() != nil {
			pk = fn.Parent().Package()
		}
		if pk == nil || !c13Scope[pk.Pkg.Path()] {
			continue
		}
		perCallee := map[string]int{}
		for _, ci := range core.AllCalls(fn) {
			eff := cg.CallEffects(ci)
			if !hasStorageEffect(eff) {
				continue
			}
			sig := ci.Common().Signature()
			ei := core.ErrorResultIndex(sig)
			if ei < 0 {
				continue
			}
			callee := shortName(core.CalleeName(ci.Common()))
			perCallee[callee]++
			construct := fmt.Sprintf("%s -> %s", core.FuncName(fn), callee)
			if perCallee[callee] > 1 {
				construct += fmt.Sprintf(" #%d", perCallee[callee])
			}
			nSites++
			r.CallSites++
			pos := p.Pos(ci.Pos())
			call, isCall := ci.(*ssa.Call)
			if !isCall {
				r.Bad("R-C13.1", construct, pos, "storage-reaching call in a go/defer statement: its error cannot be observed")
				continue
			}
			var ev ssa.Value
			if sig.Results().Len() == 1 {
				ev = call
			} else {
				ev = extractOf(call, ei)
			}
			used := ev != nil && ev.Referrers() != nil && len(nonDebugRefs(ev)) > 0
			if !used {
				callerKey := core.FuncName(fn)
				if isTokenValidator(fn) {
					// identified by what it takes (the token nonce), not by its name
					callerKey = "registration.<token validator>"
				}
				if why, ok := c13Allowed[callerKey+" -> "+callee]; ok {
					r.OK("R-C13.1", construct, pos, "allow-listed discard: "+why)
				} else {
					r.Bad("R-C13.1", construct, pos, "the error of a storage-reaching call is discarded")
				}
				continue
			}
			// returned directly?
			returned := false
			for _, ref := range nonDebugRefs(ev) {
				if _, ok := ref.(*ssa.Return); ok {
					returned = true
				}
			}
			ok, _, fail, testIf := errTestEdges(call)
			if !ok {
				if returned {
					r.OK("R-C13.1", construct, pos, "error returned to the caller unchanged")
				} else if joined := flowsToTestedError(ev); joined {
					r.OK("R-C13.1", construct, pos, "error is merged into a value that is tested and returned")
				} else {
					r.Bad("R-C13.1", construct, pos, "the error of a storage-reaching call is never tested against nil nor returned")
				}
				continue
			}
			// from the failure edge, no success return except over tolerated edges
			tolerated := core.AnyOf("errors.Is(err, ErrNotFound) or successful reload",
				core.ErrIs("this error", func(x *ssa.Call) bool { return x == call }, mod+".ErrNotFound"),
				core.ErrNil("reload", core.CallNamed(typesPkg+".LoadNodeInformation")))
			var sinks []*ssa.BasicBlock
			idx := core.ErrorResultIndex(fn.Signature)
			for _, ret := range core.Returns(fn) {
				if idx < 0 {
					continue
				}
				k := core.ReturnErrKind(ret, idx)
				if k == core.ErrNonNil {
					continue
				}
				// returning the tested error itself (or a phi/join containing it) on its failure edge is propagation
				if carries(ret.Results[idx], ev) {
					continue
				}
				sinks = append(sinks, ret.Block())
			}
			if idx < 0 {
				// callbacks without an error result (none today)
				r.Unk("R-C13.1", construct, pos, "enclosing function has no error result to propagate to")
				continue
			}
			// start at the test itself, knowing it failed: later tests of the same value
			// (through a merged error variable) are then decided
			_ = fail
			core.StartFacts = map[ssa.Value]bool{ev: true}
			core.StartIdx = 0
			if call.Block() == testIf.Block() {
				for k, in := range testIf.Block().Instrs {
					if in == ssa.Instruction(call) {
						core.StartIdx = k + 1
					}
				}
			}
			res := core.CutReachFrom(p, fn, testIf.Block(), tolerated, nil, sinks...)
			core.StartFacts, core.StartIdx = nil, 0
			if res.Reachable {
				r.Add(core.Obligation{Rule: "R-C13.1", Construct: construct, Pos: pos, Verdict: core.Violated,
					Detail: "after this storage-reaching call failed, a return without an error is reachable (failure is swallowed)", Witness: res.Witness})
			} else {
				d := "failure edge reaches only error returns"
				if len(res.Instances) > 0 {
					d += " (absence/duplicate tolerated at " + strings.Join(res.Instances, ", ") + ")"
				}
				r.OK("R-C13.1", construct, pos, d)
			}
		}
	}
	if nSites < 20 {
		r.Unk("R-C13.1", "storage-reaching call sites", "", fmt.Sprintf("only %d call sites found; the target-set computation is broken", nSites))
	}

	// R-C13.2
	type creator struct{ rel, name string }
	creators := []creator{{"rotation", "RotateRootCertificates"}, {"registration", "CreateServerLedActivationToken"}, {"types", "NewNodeCredentials"}, {"types", "(*NodeCredentials).HandleFetchNodeCredentialsResponse"}}
	var fns []*ssa.Function
	for _, cr := range creators {
		if f := c.need("R-C13.2", cr.rel, cr.name); f != nil {
			fns = append(fns, f)
		}
	}
	if h := authHelper(c, "R-C13.2"); h != nil {
		fns = append(fns, h)
	}
	for _, fn := range fns {
		name := core.FuncName(fn)
		n := 0
		for i, site := range tailReturnSites(fn) {
			i, ret := i, site.Instr.(*ssa.Return)
			site.In(func() {
				root := core.PathOf(ret.Results[0]).Root
				if core.IsNilConst(ret.Results[0]) {
					return
				}
				if lc, _ := core.CallResult(core.Strip(root)); lc != nil && strings.Contains(core.CalleeName(lc.Common()), ".Load") {
					r.OK("R-C13.2", fmt.Sprintf("%s success-return#%d", name, i), p.Pos(ret.Pos()), "payload was loaded from storage (exempt)")
					n++
					return
				}
				g := core.AnyOf("payload.Store succeeded or WithSkipStorage",
					core.FlagSet("opts.WithSkipStorage", core.AnyRootField("WithSkipStorage")),
					core.ErrNil("payload.Store", func(x *ssa.Call) bool {
						cal := x.Common().StaticCallee()
						if cal == nil || cal.Name() != "Store" || !core.InModule(cal) {
							return false
						}
						return core.Strip(x.Call.Args[0]) == core.Strip(root)
					}))
				res := core.CutReach(p, fn, g, ret.Block())
				r.CutOb(p, "R-C13.2", fmt.Sprintf("%s success-return#%d", name, i), p.Pos(ret.Pos()), res, g)
				n++
			})
		}
		if n == 0 {
			r.Unk("R-C13.2", name+" success returns", p.Pos(fn.Pos()), "no success return with a payload found")
		}
	}

	// R-C13.3
	if a := resolveFetch(c, "R-C13.3"); a != nil {
		kProvenance(c, a, "R-C13.3")
	}

	// R-C13.4
	if T := tokenValidator(c, "R-C13.4"); T != nil {
		c13Token(c, T)
	}

	// R-C13.5
	nRem := 0
	for _, fn := range p.ModuleFuncs() {
		pk := fn.Package()
		if pk == nil || !c13Scope[pk.Pkg.Path()] {
			continue
		}
		for _, ci := range core.AllCalls(fn) {
			eff, ok := core.StorageMethod(ci.Common())
			if !ok || eff != core.EffRemove {
				continue
			}
			nRem++
			arg := core.Strip(ci.Common().Args[1])
			construct := "Storage.Remove in " + core.FuncName(fn)
			pos := p.Pos(ci.Pos())
			if lc, li := core.CallResult(arg); lc != nil && li == 0 && core.CalleeName(lc.Common()) == typesPkg+".LoadServerLedActivationToken" {
				r.OK("R-C13.5", construct, pos, "removes the activation token it just loaded")
				continue
			}
			if al, isAl := arg.(*ssa.Alloc); isAl && namedType(al.Type(), typesPkg, "RootCertificates") {
				g := core.FlagSet("opts.WithReinitializeRoots", core.AnyRootField("WithReinitializeRoots"))
				res := core.CutReach(p, fn, g, ci.Block())
				r.CutOb(p, "R-C13.5", construct, pos, res, g)
				continue
			}
			r.Bad("R-C13.5", construct, pos, "unreviewed removal from storage (could remove another node's record): "+core.ValueName(arg))
		}
	}
	if nRem == 0 {
		r.Unk("R-C13.5", "Storage.Remove call sites", "", "none found (token consumption expected)")
	}
}

func nonDebugRefs(v ssa.Value) []ssa.Instruction {
	var out []ssa.Instruction
	for _, ref := range *v.Referrers() {
		if _, ok := ref.(*ssa.DebugRef); ok {
			continue
		}
		out = append(out, ref)
	}
	return out
}

// carries reports whether value v is e or a phi/ChangeInterface chain
// containing e.
func carries(v, e ssa.Value) bool {
	seen := map[ssa.Value]bool{}
	var walk func(x ssa.Value) bool
	walk = func(x ssa.Value) bool {
		if x == e {
			return true
		}
		if seen[x] {
			return false
		}
		seen[x] = true
		switch y := x.(type) {
		case *ssa.Phi:
			for _, ed := range y.Edges {
				if walk(ed) {
					return true
				}
			}
		case *ssa.ChangeInterface:
			return walk(y.X)
		}
		return false
	}
	return walk(v)
}

// flowsToTestedError: e is an operand of a phi (or errors.Join) whose result
// is tested against nil somewhere.
func flowsToTestedError(e ssa.Value) bool {
	for _, ref := range nonDebugRefs(e) {
		if ph, ok := ref.(*ssa.Phi); ok {
			for _, r2 := range nonDebugRefs(ph) {
				if bo, ok := r2.(*ssa.BinOp); ok && (core.IsNilConst(bo.X) || core.IsNilConst(bo.Y)) {
					return true
				}
				if _, ok := r2.(*ssa.Return); ok {
					return true
				}
			}
		}
	}
	return false
}

func c13Token(c *Ctx, T *ssa.Function) {
	p, r := c.P, c.R
	tname := core.FuncName(T)
	var auth []*ssa.Call
	for _, ci := range core.AllCalls(T) {
		call, ok := ci.(*ssa.Call)
		if !ok {
			continue
		}
		cal := call.Common().StaticCallee()
		if cal != nil && cal != T && helperOK(cal) {
			auth = append(auth, call)
		}
	}
	loads := callsNamed(T, typesPkg+".LoadServerLedActivationToken")
	if len(auth) == 0 || len(loads) != 1 {
		r.Unk("R-C13.4", tname+" anchors", p.Pos(T.Pos()), "authorising call or token load not found")
		return
	}
	entry := extractOf(loads[0], 0)
	g := core.ErrNil("storage.Remove(entry)", func(x *ssa.Call) bool {
		eff, ok := core.StorageMethod(x.Common())
		return ok && eff == core.EffRemove && core.Strip(x.Common().Args[1]) == entry
	})
	for i, ac := range auth {
		res := core.CutReach(p, T, g, ac.Block())
		r.CutOb(p, "R-C13.4", fmt.Sprintf("%s authorise-call#%d after successful Remove", tname, i), p.Pos(ac.Pos()), res, g)
	}
}

var _ = sort.Strings
