package rules

import (
	"nechk/core"

	"golang.org/x/tools/go/ssa"
)

// fieldStore is one store into a (possibly nested) field of an allocation.
type fieldStore struct {
	Field string // dotted: "Subject.CommonName"
	Val   ssa.Value
	St    *ssa.Store
}

// fieldStores lists every store into fields of the struct value base points
// to (following nested FieldAddr chains), in no particular order.
func fieldStores(base ssa.Value) []fieldStore {
	var out []fieldStore
	var walk func(v ssa.Value, prefix string)
	walk = func(v ssa.Value, prefix string) {
		refs := v.Referrers()
		if refs == nil {
			return
		}
		for _, ref := range *refs {
			fa, ok := ref.(*ssa.FieldAddr)
			if !ok || fa.X != v {
				continue
			}
			_, fname := core.FieldAddrName(fa)
			name := prefix + fname
			for _, r2 := range *fa.Referrers() {
				if st, ok := r2.(*ssa.Store); ok && st.Addr == fa {
					out = append(out, fieldStore{name, st.Val, st})
				}
			}
			walk(fa, name+".")
		}
	}
	walk(base, "")
	return out
}

// storesOf groups fieldStores by field.
func storesOf(base ssa.Value) map[string][]fieldStore {
	m := map[string][]fieldStore{}
	for _, fs := range fieldStores(base) {
		m[fs.Field] = append(m[fs.Field], fs)
	}
	return m
}

// appendBase: for v = append(x, ...) returns x and the appended literal
// elements; ok=false otherwise.
func appendParts(v ssa.Value) (base ssa.Value, elems []ssa.Value, ok bool) {
	c, _ := core.CallResult(core.Strip(v))
	if c == nil || core.CalleeName(c.Common()) != "builtin:append" || len(c.Call.Args) != 2 {
		return nil, nil, false
	}
	el, isLit := sliceLiteralElems(c.Call.Args[1])
	if !isLit {
		return c.Call.Args[0], nil, true
	}
	return c.Call.Args[0], el, true
}
