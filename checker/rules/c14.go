package rules

import (
	"fmt"
	"sort"
	"strings"

	"nechk/core"

	"golang.org/x/tools/go/ssa"
)

func init() { All["C14"] = c14 }

// listenerReach: module functions reachable from (*InterceptingListener).Accept,
// including closures, functions stored in listener fields and the module's
// Storage implementations (the application may use them).
func listenerReach(c *Ctx, rule string) (map[*ssa.Function]bool, *core.CallGraph) {
	acc := c.need(rule, "protocol", "(*InterceptingListener).Accept")
	if acc == nil {
		return nil, nil
	}
	cg := core.BuildCallGraph(c.P)
	reach := cg.Reachable(acc)
	if hasStorageEffect(cg.Effects(acc)) {
		for _, fn := range c.P.ModuleFuncs() {
			if fn.Signature.Recv() == nil || fn.Pkg == nil || !strings.Contains(fn.Pkg.Pkg.Path(), "/storage/") {
				continue
			}
			switch fn.Name() {
			case "Store", "Load", "Remove", "List", "LoadByNodeId":
				for f := range cg.Reachable(fn) {
					reach[f] = true
				}
			}
		}
	}
	return reach, cg
}

// storageOrigin: functions whose wrapper-unseal input comes from storage
// (they invoke Storage.Load themselves, or are only called by such functions).
func storageOrigin(cg *core.CallGraph, fn *ssa.Function) bool {
	return storageOriginDepth(cg, fn, 0)
}

// storageOriginDepth: fn loads from storage itself, or every caller (up to
// three levels of helpers) does: the blob it unseals was read back, not received.
func storageOriginDepth(cg *core.CallGraph, fn *ssa.Function, depth int) bool {
	if cg.Direct[fn][core.EffLoad] || cg.Direct[fn][core.EffLoadBy] {
		return true
	}
	callers := cg.Callers[fn]
	if len(callers) == 0 || depth >= 3 {
		return false
	}
	for _, cl := range callers {
		if cl == fn || !storageOriginDepth(cg, cl, depth+1) {
			return false
		}
	}
	return true
}

// dischargeTypeAssert handles the repository's two type-assertion idioms.
func dischargeTypeAssert(p *core.Prog, ta *ssa.TypeAssert) (bool, string) {
	src := core.Strip(ta.X)
	if cc, _ := core.CallResult(src); cc != nil {
		switch core.CalleeName(cc.Common()) {
		case "google.golang.org/protobuf/proto.Clone":
			if at := core.Strip(cc.Call.Args[0]).Type(); at.String() == ta.AssertedType.String() {
				return true, "proto.Clone returns its argument's dynamic type"
			}
		case "(*github.com/armon/go-radix.Tree).Get":
			// container-content invariant: every Insert puts the asserted type
			n := 0
			for _, fn := range p.ModuleFuncs() {
				for _, ins := range callsNamed(fn, "(*github.com/armon/go-radix.Tree).Insert") {
					n++
					mi, ok := ins.Call.Args[2].(*ssa.MakeInterface)
					if !ok || mi.X.Type().String() != ta.AssertedType.String() {
						return false, "a radix Insert stores a different dynamic type"
					}
				}
			}
			if n > 0 {
				return true, fmt.Sprintf("all %d radix Insert sites store %s", n, ta.AssertedType.String())
			}
		}
	}
	return false, ""
}

func c14(c *Ctx) {
	lockPairing(c, "R-C14.5")
	p, r := c.P, c.R
	r.Rule("R-C14.1", "every run-time panic site (explicit panic, index, slice bounds, unchecked type assertion, integer division) in every module function reachable from InterceptingListener.Accept (closures, listener function fields and module storage back ends included) is discharged by a dominating length test on the same access path, a range-loop bound, a fixed-array constant index, a container-content invariant or proto.Clone typing; unchecked constant-bound slices inside dependency callees (aead.Wrapper.Decrypt) become length preconditions at the module's call site when the argument is remote input")
	r.Rule("R-C14.2", "in Accept every return after a successful base Accept has a nil error or an error produced by temperror.New, and every error return has a nil connection; NewConn cannot fail for the options used; tempError.Temporary() is true on every path")
	r.Rule("R-C14.3", "the base listener's Close is reachable only from InterceptingListener.Close; on handshake failure and on a fetch handshake the TLS connection is closed")
	r.NotDecided = append(r.NotDecided, "nil-pointer dereferences in general", "panics inside the standard library, the protobuf runtime or an application-supplied callback", "that a subsequent honest node still connects (liveness)", "resource exhaustion")

	reach, cg := listenerReach(c, "R-C14.1")
	if reach == nil {
		return
	}
	var fns []*ssa.Function
	for f := range reach {
		if f.Blocks != nil && !isGenerated(p, f) {
			fns = append(fns, f)
		}
	}
	sort.Slice(fns, func(i, j int) bool { return core.FuncName(fns[i]) < core.FuncName(fns[j]) })
	if len(fns) < 30 {
		r.Unk("R-C14.1", "listener reach set", "", fmt.Sprintf("only %d functions reachable from Accept; call graph is broken", len(fns)))
	}
	nSites := 0
	for _, fn := range fns {
		r.Fn(core.FuncName(fn))
		per := map[string]int{}
		for _, s := range core.PanicSites(p, fn) {
			nSites++
			per[s.Kind+" "+s.Desc]++
			construct := fmt.Sprintf("%s %s %s", core.FuncName(fn), s.Kind, s.Desc)
			if per[s.Kind+" "+s.Desc] > 1 {
				construct += fmt.Sprintf(" #%d", per[s.Kind+" "+s.Desc])
			}
			pos := p.Pos(s.Instr.Pos())
			if s.Discharged {
				r.OK("R-C14.1", construct, pos, s.Why)
				continue
			}
			if ta, ok := s.Instr.(*ssa.TypeAssert); ok {
				if okd, why := dischargeTypeAssert(p, ta); okd {
					r.OK("R-C14.1", construct, pos, why)
					continue
				}
			}
			r.Bad("R-C14.1", construct, pos, "can panic on the goroutine running Accept: "+s.Why)
		}
		// dependency preconditions
		for i, ci := range core.AllCalls(fn) {
			call, ok := ci.(*ssa.Call)
			if !ok {
				continue
			}
			needs, impl := wrapperDecryptNeeds(p, call)
			if len(needs) == 0 {
				continue
			}
			construct := fmt.Sprintf("%s callee-precondition %s", core.FuncName(fn), impl)
			_ = i
			if storageOrigin(cg, fn) {
				r.OK("R-C14.1", construct, p.Pos(call.Pos()), "blob read back from storage, not remote input")
				continue
			}
			blob := call.Common().Args[1]
			if !call.Common().IsInvoke() {
				blob = call.Call.Args[2]
			}
			okAll := true
			var inst []string
			roots := blobRoots(fn, core.Strip(blob))
			for f, n := range needs {
				g := core.LenAtLeast("blob."+f, func(pp core.Path) bool { return roots[pp.Root] && pp.HasFields(f) }, n)
				res := core.CutReach(p, fn, g, call.Block())
				if res.Reachable || len(res.Instances) == 0 {
					okAll = false
				}
				inst = append(inst, res.Instances...)
			}
			if okAll {
				r.OK("R-C14.1", construct, p.Pos(call.Pos()), "length precondition checked before the call: "+strings.Join(inst, ","))
			} else {
				r.Bad("R-C14.1", construct, p.Pos(call.Pos()), fmt.Sprintf("a remote-controlled blob reaches %s, which slices it with constant bounds %v without a length check", impl, needs))
			}
		}
	}
	if nSites == 0 {
		r.Unk("R-C14.1", "panic sites", "", "no panic site found in the reach set: enumeration is broken")
	}
	c14Accept(c, cg)
}

// wrapperDecryptNeeds: for a Decrypt call on an AEAD wrapper (static, or an
// invoke on wrapping.Wrapper that CHA resolves to a wrapper implementation the
// module imports) returns the length preconditions on the BlobInfo fields.
func wrapperDecryptNeeds(p *core.Prog, call *ssa.Call) (map[string]int64, string) {
	const aeadDecrypt = "(*github.com/hashicorp/go-kms-wrapping/v2/aead.Wrapper).Decrypt"
	name := core.CalleeName(call.Common())
	isInvoke := false
	if eff, ok := core.WrapperMethod(call.Common()); ok && eff == core.EffUnwrap {
		isInvoke = true
	}
	if name != aeadDecrypt && !isInvoke {
		return nil, ""
	}
	sp := p.SSAPkg["github.com/hashicorp/go-kms-wrapping/v2/aead"]
	if sp == nil {
		return nil, ""
	}
	var dec *ssa.Function
	if tn, ok := sp.Members["Wrapper"].(*ssa.Type); ok {
		dec = p.SSA.LookupMethod(typesPointer(tn), sp.Pkg, "Decrypt")
	}
	if dec == nil {
		return nil, ""
	}
	needs := core.ConstSliceNeeds(dec, 2)
	impl := "wrapping.Wrapper.Decrypt/aead"
	if !isInvoke {
		impl = "aead.Wrapper.Decrypt"
	}
	return needs, impl
}

func isGenerated(p *core.Prog, fn *ssa.Function) bool {
	pos := p.Fset.Position(fn.Pos())
	return strings.HasSuffix(pos.Filename, ".pb.go")
}

func c14Accept(c *Ctx, cg *core.CallGraph) {
	p, r := c.P, c.R
	acc := c.P.Func("protocol", "(*InterceptingListener).Accept")
	name := "protocol.(*InterceptingListener).Accept"
	// base accept call: invoke net.Listener.Accept on l.baseLn
	var base *ssa.Call
	for _, ci := range core.AllCalls(acc) {
		if ci.Common().IsInvoke() && ci.Common().Method.Name() == "Accept" && core.PathOf(ci.Common().Value).HasFields("baseLn") {
			base, _ = ci.(*ssa.Call)
		}
	}
	if base == nil {
		r.Unk("R-C14.2", name+" base accept", p.Pos(acc.Pos()), "no l.baseLn.Accept() call")
		return
	}
	okT, succ, _, _ := errTestEdges(base)
	if !okT {
		r.Unk("R-C14.2", name+" base accept error test", p.Pos(base.Pos()), "error of the base Accept is not tested")
		return
	}
	after := reachFrom(succ, nil)
	n := 0
	for i, ret := range core.Returns(acc) {
		construct := fmt.Sprintf("%s return#%d", name, i)
		conn, errv := ret.Results[0], ret.Results[1]
		kind := core.ValueErrKind(errv, ret.Block())
		// only returns that lie strictly after a successful base accept and are not also reachable from its failure edge
		if !after[ret.Block()] || !succ.Dominates(ret.Block()) {
			// pre-connection returns: option parsing / base listener failure
			r.Check(core.IsNilConst(conn), "R-C14.2", construct+" (no connection yet) returns no connection", p.Pos(ret.Pos()), "nil connection", "returns a connection together with a listener-level error")
			continue
		}
		n++
		if kind == core.ErrNilConst {
			r.OK("R-C14.2", construct+" success", p.Pos(ret.Pos()), "nil error")
			continue
		}
		// error must come from temperror.New, or from NewConn (whose error cannot occur)
		src := errv
		for {
			if mi, ok := src.(*ssa.MakeInterface); ok {
				src = mi.X
				continue
			}
			if ci, ok := src.(*ssa.ChangeInterface); ok {
				src = ci.X
				continue
			}
			break
		}
		cc, _ := core.CallResult(src)
		// a helper whose every non-nil result is produced by temperror.New
		allTemp, nTemp := true, 0
		eachValue(src, func(x ssa.Value) {
			for _, y := range flattenPhi(x) {
				for {
					if mi, ok := y.(*ssa.MakeInterface); ok {
						y = mi.X
						continue
					}
					break
				}
				if core.IsNilConst(y) {
					continue
				}
				tc, _ := core.CallResult(y)
				if tc != nil && core.CalleeName(tc.Common()) == mod+"/util/temperror.New" {
					nTemp++
				} else {
					allTemp = false
				}
			}
		}, mod+"/util/temperror.New", mod+"/protocol.NewConn")
		switch {
		case cc != nil && core.CalleeName(cc.Common()) != mod+"/protocol.NewConn" && allTemp && nTemp > 0:
			r.Check(core.IsNilConst(conn), "R-C14.2", construct+" per-connection failure", p.Pos(ret.Pos()), "temporary error, nil connection", "a temporary error is returned together with a connection")
		case derivesOnlyFromNewConn(src) != nil:
			// the error is NewConn's, possibly joined with a clean-up error on its failure branch
			cc = derivesOnlyFromNewConn(src)
			okNC, why := newConnCannotFail(c, cc)
			r.Check(okNC, "R-C14.2", construct+" NewConn error", p.Pos(ret.Pos()), "NewConn's only error source is option parsing and the options used cannot fail", "NewConn may fail with a non-temporary error after a connection was accepted: "+why)
		default:
			r.Bad("R-C14.2", construct, p.Pos(ret.Pos()), "after a connection was accepted an error that is not marked temporary is returned: a single bad peer stops the accept loop of gRPC-style servers ("+core.ValueName(src)+")")
		}
	}
	if n == 0 {
		r.Unk("R-C14.2", name+" post-accept returns", p.Pos(acc.Pos()), "none found")
	}
	// Temporary() is true on every path
	if tf := c.need("R-C14.2", "util/temperror", "(tempError).Temporary"); tf != nil {
		all := true
		for _, ret := range core.Returns(tf) {
			if b, ok := core.ConstBool(ret.Results[0]); !ok || !b {
				all = false
			}
		}
		r.Check(all, "R-C14.2", "temperror.tempError.Temporary", p.Pos(tf.Pos()), "constant true", "Temporary() can return false")
	}
	if nf := c.need("R-C14.2", "util/temperror", "New"); nf != nil {
		// every non-nil result is a value of the temporary error type (never the inner error passed through)
		inner := ssa.Value(nf.Params[0])
		bad := ""
		n := 0
		for _, ret := range core.Returns(nf) {
			v := core.ReturnOperand(ret, 0)
			for _, src := range flattenPhi(v) {
				n++
				if core.IsNilConst(src) {
					// allowed only when the inner error is nil
					g := core.NilTest("inner is nil", func(pp core.Path) bool { return pp.Root == inner && len(pp.Fields) == 0 }, true)
					res := core.CutReach(p, nf, g, ret.Block())
					if res.Reachable || len(res.Instances) == 0 {
						bad = "returns nil for a non-nil inner error"
					}
					continue
				}
				t := src.Type().String()
				if mi, ok := src.(*ssa.MakeInterface); ok {
					t = mi.X.Type().String()
				}
				if !strings.Contains(t, "tempError") {
					bad = "a path returns " + core.ValueName(src) + " (type " + t + "), not the temporary error type"
				}
			}
		}
		r.Check(bad == "" && n > 0, "R-C14.2", "temperror.New wraps on every path", p.Pos(nf.Pos()), "every result is the temporary error type", "temperror.New: "+bad+": such an error stops gRPC-style accept loops")
	}

	// R-C14.3: who closes the base listener
	for _, fn := range p.ModuleFuncs() {
		for _, ci := range core.AllCalls(fn) {
			if ci.Common().IsInvoke() && ci.Common().Method.Name() == "Close" && core.PathOf(ci.Common().Value).HasFields("baseLn") {
				nm := core.FuncName(fn)
				r.Check(nm == "(*protocol.InterceptingListener).Close", "R-C14.3", "base listener Close in "+nm, p.Pos(ci.Pos()), "only the listener's own Close closes the base listener", "the base listener is closed outside InterceptingListener.Close (a per-connection failure could stop the listener)")
			}
		}
	}
	// the TLS connection is closed on the two failure arms
	servers := callsNamed(acc, "crypto/tls.Server")
	if len(servers) == 1 {
		tlsConn := ssa.Value(servers[0])
		closes := map[*ssa.BasicBlock]bool{}
		for _, cl := range callsNamed(acc, "(*crypto/tls.Conn).Close") {
			if core.Strip(cl.Call.Args[0]) == tlsConn {
				closes[cl.Block()] = true
			}
		}
		// a helper that closes the connection it is given on every path
		closeBase := func(in ssa.Instruction, isAlias func(ssa.Value) bool) bool {
			cl, ok := core.IsCallTo(in, "(*crypto/tls.Conn).Close")
			return ok && len(cl.Args) > 0 && isAlias(cl.Args[0])
		}
		for _, ci := range core.Helpers(acc) {
			if core.CallConsumes(p, ci, func(v ssa.Value) bool { return core.Strip(v) == tlsConn }, closeBase, 0) {
				closes[ci.Block()] = true
			}
		}
		for i, ret := range core.Returns(acc) {
			if !after[ret.Block()] || !succ.Dominates(ret.Block()) {
				continue
			}
			if core.ValueErrKind(ret.Results[1], ret.Block()) == core.ErrNilConst {
				continue
			}
			if cc, _ := core.CallResult(core.Strip(ret.Results[0])); cc != nil {
				continue // NewConn return
			}
			// every path from the tls.Server block to this return passes a Close block
			reached := reachFrom(servers[0].Block(), closes)[ret.Block()]
			r.Check(!reached, "R-C14.3", fmt.Sprintf("%s error-return#%d closes the connection", name, i), p.Pos(ret.Pos()), "the TLS connection is closed on every path to this error return", "a failed handshake leaves the connection open (descriptor leak per bad peer)")
		}
	}
}

// newConnCannotFail: NewConn's only error return stems from GetOpts, and every
// option passed at this call site is built by a constructor whose closure
// returns the constant nil.
func newConnCannotFail(c *Ctx, call *ssa.Call) (bool, string) {
	nc := c.P.Func("protocol", "NewConn")
	if nc == nil {
		return false, "NewConn not found"
	}
	for _, ret := range core.Returns(nc) {
		if core.ReturnErrKind(ret, 1) == core.ErrNilConst {
			continue
		}
		// must be dominated by GetOpts failure
		g := core.ErrNil("GetOpts", core.CallNamed(mod+".GetOpts"))
		inv := core.Guard{Name: "GetOpts failed", Match: func(cond ssa.Value) (int, bool) { s, ok := g.Match(cond); return 1 - s, ok }}
		res := core.CutReach(c.P, nc, inv, ret.Block())
		if res.Reachable || len(res.Instances) == 0 {
			return false, "NewConn has an error return not caused by option parsing"
		}
	}
	elems, ok := sliceLiteralElems(call.Call.Args[1])
	if !ok {
		return false, "options are not a literal list"
	}
	for _, e := range elems {
		oc, _ := core.CallResult(core.Strip(e))
		if oc == nil {
			return false, "option is not a constructor call"
		}
		ctor := oc.Common().StaticCallee()
		if ctor == nil || len(ctor.AnonFuncs) != 1 {
			return false, "option constructor " + core.CalleeName(oc.Common()) + " not understood"
		}
		for _, ret := range core.Returns(ctor.AnonFuncs[0]) {
			if !core.IsNilConst(ret.Results[0]) {
				return false, "option " + ctor.Name() + " can return an error"
			}
		}
	}
	return true, ""
}


// derivesOnlyFromNewConn: every value the error may take is NewConn's error
// result, or an errors.Join / fmt.Errorf that carries it (so it is non-nil only
// if NewConn failed). Returns that NewConn call.
func derivesOnlyFromNewConn(v ssa.Value) *ssa.Call {
	var nc *ssa.Call
	ok := true
	var walk func(x ssa.Value, depth int) bool // true if x carries NewConn's error
	walk = func(x ssa.Value, depth int) bool {
		if depth > 4 {
			return false
		}
		carries := false
		all := true
		for _, y := range flattenPhi(x) {
			for {
				if mi, isMI := y.(*ssa.MakeInterface); isMI {
					y = mi.X
					continue
				}
				if ci, isCI := y.(*ssa.ChangeInterface); isCI {
					y = ci.X
					continue
				}
				break
			}
			if core.IsNilConst(y) {
				continue
			}
			call, idx := core.CallResult(y)
			switch {
			case call != nil && core.CalleeName(call.Common()) == mod+"/protocol.NewConn" && idx == 1:
				nc = call
				carries = true
			case call != nil && (core.CalleeName(call.Common()) == "errors.Join" || core.CalleeName(call.Common()) == "fmt.Errorf"):
				inner := false
				for _, a := range call.Call.Args {
					for _, e := range core.SliceLiteralElems(a) {
						if walk(e, depth+1) {
							inner = true
						}
					}
				}
				if inner {
					carries = true
				} else {
					all = false
				}
			default:
				all = false
			}
		}
		return carries && all
	}
	if !walk(v, 0) {
		ok = false
	}
	if !ok {
		return nil
	}
	return nc
}
