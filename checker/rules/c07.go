package rules

import (
	"fmt"
	"strings"

	"nechk/core"

	"golang.org/x/tools/go/ssa"
)

func init() { All["C07"] = c07 }

func c07(c *Ctx) {
	p, r := c.P, c.R
	r.Rule("R-C07.1", "nonce binding in tls.ClientConfigs: the nonce is a fresh 32-byte buffer filled from the random reader (error and length checked); the same value is req.Nonce of the ALPN request and, base64-encoded, the WithNonce option that ends the option list of every standardTlsConfig call; standardTlsConfig sets verifyOpts.DNSName from opts.WithNonce")
	r.Rule("R-C07.2", "every certificate added to the pool given to standardTlsConfig is parsed from bundle.CaCertificateDer of the node's own CertificateBundles, and the pool is a fresh x509.NewCertPool()")
	r.Rule("R-C07.3", "the only non-nil connection protocol.Dial returns is tls.Client(_, cfg) with cfg an element of ClientConfigs' result, after a successful handshake; attemptFetch returns no connection")
	r.Rule("R-C07.4", "in Dial's loop over the client configurations a failed handshake leads back to the loop header (every chain is tried), not to a return")
	r.Rule("R-C07.5", "attemptFetch returns the ErrNotAuthorized sentinel itself on the common-name arm; Dial returns attemptFetch's error unwrapped or joined; the certificate-storing HandleFetchNodeCredentialsResponse call is reached only if attemptFetch succeeded")
	r.Rule("R-C07.8", "each client configuration has its own ALPN list: no append whose result reaches a tls.Config.NextProtos store inside the per-chain loop has a base slice defined outside that loop (a loop-invariant base with spare capacity is one backing array shared by all configurations: the last certificate selector written wins)")
	r.Rule("R-C07.7", "whichever chain the server still recognises: the GetClientCertificate callback of every client configuration selects its certificate by ranging over all stored chains and all CAs the server lists, under byte-equality of the chain's CA subject with the listed CA (not by a single key captured from the enclosing loop)")
	r.Rule("R-C07.6", "chain filters on both TLS sides (R-C09.4, evaluated here)")
	r.NotDecided = append(r.NotDecided, "that a registered node always connects (liveness)", "rogue-server behaviour inside crypto/tls", "the application-controlled WithTlsVerifyOptionsFunc override")

	CC := c.need("R-C07.1", "tls", "ClientConfigs")
	std := c.need("R-C07.1", "tls", "standardTlsConfig")
	if CC != nil && std != nil {
		name := "tls.ClientConfigs"
		// request literal and its nonce
		var reqAl *ssa.Alloc
		for _, b := range CC.Blocks {
			for _, in := range b.Instrs {
				if al, ok := in.(*ssa.Alloc); ok && namedType(al.Type(), typesPkg, "GenerateServerCertificatesRequest") {
					reqAl = al
				}
			}
		}
		var nonce ssa.Value
		if reqAl != nil {
			if s := storesOf(reqAl)["Nonce"]; len(s) == 1 {
				nonce = core.Strip(s[0].Val)
			}
		}
		if nonce == nil {
			r.Unk("R-C07.1", name+" request nonce", p.Pos(CC.Pos()), "no request literal with a Nonce found")
		} else {
			fresh := false
			switch x := nonce.(type) {
			case *ssa.MakeSlice:
				k, isK := core.ConstInt(x.Len)
				fresh = isK && k == 32
			case *ssa.Slice:
				if al, ok := x.X.(*ssa.Alloc); ok && strings.Contains(al.Type().String(), "[32]byte") {
					fresh = true
				}
			}
			r.Check(fresh, "R-C07.1", name+" nonce buffer", p.Pos(nonce.Pos()), "fresh 32-byte buffer", "the per-connection nonce is not a fresh 32-byte buffer")
			var rd *ssa.Call
			for _, ci := range core.AllCalls(CC) {
				if call, ok := ci.(*ssa.Call); ok && ci.Common().IsInvoke() && ci.Common().Method.Name() == "Read" && core.Strip(ci.Common().Args[0]) == nonce {
					rd = call
				}
			}
			if rd == nil {
				r.Bad("R-C07.1", name+" nonce fill", p.Pos(CC.Pos()), "the nonce buffer is never filled from a reader")
			} else {
				r.Check(core.PathOf(rd.Common().Value).HasFields("WithRandomReader"), "R-C07.1", name+" nonce source", p.Pos(rd.Pos()), "opts.WithRandomReader", "nonce bytes do not come from the configured random reader")
				nv := extractOf(rd, 0)
				for i, sc := range callsTo(CC, std) {
					for _, g := range []core.Guard{
						core.ErrNil("Read(nonce)", func(x *ssa.Call) bool { return x == rd }),
						core.EnumEq("n == 32", func(pp core.Path) bool { return pp.Root == nv && len(pp.Fields) == 0 }, 32),
					} {
						res := core.CutReach(p, CC, g, sc.Block())
						r.CutOb(p, "R-C07.1", fmt.Sprintf("%s standardTlsConfig#%d after %s", name, i, g.Name), p.Pos(sc.Pos()), res, g)
					}
				}
			}
			// option list of each standardTlsConfig call ends with WithNonce(base64(nonce))
			scs := callsTo(CC, std)
			if len(scs) == 0 {
				r.Unk("R-C07.1", name+" standardTlsConfig calls", p.Pos(CC.Pos()), "none")
			}
			for i, sc := range scs {
				okN := false
				for _, src := range flattenPhi(sc.Call.Args[2]) {
					_, elems, ok := appendParts(src)
					if !ok {
						continue
					}
					for _, e := range elems {
						oc, _ := core.CallResult(core.Strip(e))
						if oc == nil || core.CalleeName(oc.Common()) != mod+".WithNonce" {
							continue
						}
						ec, _ := core.CallResult(core.Strip(oc.Call.Args[0]))
						if ec != nil && strings.HasSuffix(core.CalleeName(ec.Common()), "base64.Encoding).EncodeToString") && core.Strip(ec.Call.Args[1]) == nonce {
							okN = true
						}
					}
				}
				// and every source of the option list is such an append (no path without it)
				all := true
				for _, src := range flattenPhi(sc.Call.Args[2]) {
					if _, _, ok := appendParts(src); !ok {
						all = false
					}
				}
				r.Check(okN && all, "R-C07.1", fmt.Sprintf("%s standardTlsConfig#%d carries WithNonce(base64(nonce))", name, i), p.Pos(sc.Pos()), "the verification name is this connection's nonce", "a client configuration is built without binding the server certificate to this connection's nonce")
			}
		}
		// standardTlsConfig: verifyOpts.DNSName = opts.WithNonce
		okDns := false
		for _, b := range std.Blocks {
			for _, in := range b.Instrs {
				if al, ok := in.(*ssa.Alloc); ok && namedType(al.Type(), "crypto/x509", "VerifyOptions") {
					for _, fs := range fieldStores(al) {
						if fs.Field == "DNSName" && core.PathOf(fs.Val).HasFields("WithNonce") {
							okDns = true
						}
					}
				}
			}
		}
		r.Check(okDns, "R-C07.1", "tls.standardTlsConfig verifyOpts.DNSName", p.Pos(std.Pos()), "DNSName = opts.WithNonce", "the peer certificate is not required to carry the connection nonce as a DNS name")

		// R-C07.2
		pools := callsNamed(CC, "crypto/x509.NewCertPool")
		adds := callsNamed(CC, "(*crypto/x509.CertPool).AddCert")
		if len(pools) != 1 || len(adds) == 0 {
			r.Unk("R-C07.2", name+" trust pool", p.Pos(CC.Pos()), fmt.Sprintf("NewCertPool calls=%d AddCert calls=%d", len(pools), len(adds)))
		} else {
			pool := ssa.Value(pools[0])
			n := ssa.Value(CC.Params[1])
			for i, ac := range adds {
				okA := core.Strip(ac.Call.Args[0]) == pool
				pc, pi := core.CallResult(core.Strip(ac.Call.Args[1]))
				if okA && pc != nil && pi == 0 && core.CalleeName(pc.Common()) == "crypto/x509.ParseCertificate" {
					dp := core.PathOf(pc.Call.Args[0])
					sp, isElem := elemOf(dp.Root)
					okA = dp.HasFields("CaCertificateDer") && isElem && sp.Root == n && sp.HasFields("CertificateBundles")
				} else {
					okA = false
				}
				r.Check(okA, "R-C07.2", fmt.Sprintf("%s AddCert#%d provenance", name, i), p.Pos(ac.Pos()), "CA certificate of the node's own stored bundle", "a certificate that does not come from the node's stored bundles is trusted")
			}
			for i, sc := range callsTo(CC, std) {
				r.Check(core.Strip(sc.Call.Args[1]) == pool, "R-C07.2", fmt.Sprintf("%s standardTlsConfig#%d pool", name, i), p.Pos(sc.Pos()), "the fresh pool filled from the stored bundles", "the client configuration trusts a different pool (e.g. system roots)")
			}
		}
	}

	if CC != nil {
		c07ClientCert(c, CC)
	}

	// R-C07.3 / R-C07.4 / R-C07.5
	D := c.need("R-C07.3", "protocol", "Dial")
	AF := c.need("R-C07.5", "protocol", "attemptFetch")
	if D == nil || AF == nil {
		return
	}
	dname := "protocol.Dial"
	ccs := callsNamed(D, mod+"/tls.ClientConfigs")
	var cfgs ssa.Value
	if len(ccs) == 1 {
		cfgs = extractOf(ccs[0], 0)
	}
	n := 0
	for i, ret := range core.Returns(D) {
		v := core.Strip(ret.Results[0])
		if core.IsNilConst(v) {
			continue
		}
		n++
		tc, _ := core.CallResult(v)
		okc := false
		var hs core.Guard
		if tc != nil && core.CalleeName(tc.Common()) == "crypto/tls.Client" {
			sp, isElem := elemOf(core.Strip(tc.Call.Args[1]))
			okc = isElem && cfgs != nil && sp.Root == cfgs && len(sp.Fields) == 0
			hs = core.ErrNil("tlsConn.HandshakeContext", func(x *ssa.Call) bool {
				return core.CalleeName(x.Common()) == "(*crypto/tls.Conn).HandshakeContext" && core.Strip(x.Call.Args[0]) == ssa.Value(tc)
			})
		}
		r.Check(okc, "R-C07.3", fmt.Sprintf("%s connection-return#%d provenance", dname, i), p.Pos(ret.Pos()), "tls.Client(_, element of ClientConfigs(...))", "Dial returns a connection that was not set up from the node's verified client configurations")
		if okc {
			res := core.CutReach(p, D, hs, ret.Block())
			r.CutOb(p, "R-C07.3", fmt.Sprintf("%s connection-return#%d after handshake", dname, i), p.Pos(ret.Pos()), res, hs)
			// R-C07.4
			for _, hc := range callsNamed(D, "(*crypto/tls.Conn).HandshakeContext") {
				if core.Strip(hc.Call.Args[0]) != ssa.Value(tc) {
					continue
				}
				scc := sccOf(hc.Block())
				okT, _, fail, _ := errTestEdges(hc)
				if scc == nil || !okT {
					r.Bad("R-C07.4", dname+" handshake loop", p.Pos(hc.Pos()), "the handshake is not attempted in a loop over the client configurations: only one chain is tried")
					continue
				}
				h := loopHeader(scc)
				esc := ""
				for b := range reachFrom(fail, map[*ssa.BasicBlock]bool{h: true}) {
					if !scc[b] {
						esc = p.Pos(firstPos(b))
					}
				}
				r.Check(esc == "", "R-C07.4", dname+" failed handshake tries the next chain", p.Pos(hc.Pos()), "failure edge leads back to the loop header", "a failed handshake leaves the loop ("+esc+"): the node does not try its other certificate chain")
			}
		}
	}
	if n == 0 {
		r.Unk("R-C07.3", dname+" connection returns", p.Pos(D.Pos()), "none")
	}
	// attemptFetch has no connection result
	okSig := true
	for i := 0; i < AF.Signature.Results().Len(); i++ {
		if strings.Contains(AF.Signature.Results().At(i).Type().String(), "Conn") {
			okSig = false
		}
	}
	r.Check(okSig, "R-C07.3", "protocol.attemptFetch returns no connection", p.Pos(AF.Pos()), "results carry no connection", "the unverified fetch connection can leave attemptFetch")
	for _, b := range AF.Blocks {
		for _, in := range b.Instrs {
			if al, ok := in.(*ssa.Alloc); ok && namedType(al.Type(), "crypto/tls", "Config") {
				isv := false
				for _, fs := range fieldStores(al) {
					if fs.Field == "InsecureSkipVerify" {
						if bv, ok := core.ConstBool(fs.Val); ok && bv {
							isv = true
						}
					}
				}
				if isv {
					// the config must only reach tls.Client inside attemptFetch
					escapes := false
					for _, ref := range *al.Referrers() {
						switch x := ref.(type) {
						case *ssa.FieldAddr, *ssa.DebugRef:
						case *ssa.Call:
							if core.CalleeName(x.Common()) != "crypto/tls.Client" {
								escapes = true
							}
						default:
							escapes = true
						}
					}
					r.Check(!escapes, "R-C07.3", "protocol.attemptFetch unverified configuration stays local", p.Pos(al.Pos()), "used only for the fetch handshake", "the InsecureSkipVerify fetch configuration escapes attemptFetch")
				}
			}
		}
	}

	// R-C07.5
	nS := 0
	for _, ret := range core.Returns(AF) {
		if core.IsGlobalLoad(core.ReturnOperand(ret, 1), mod+".ErrNotAuthorized") {
			nS++
			r.Check(core.IsNilConst(ret.Results[0]), "R-C07.5", "protocol.attemptFetch not-authorized return", p.Pos(ret.Pos()), "(nil, ErrNotAuthorized)", "returns a response together with ErrNotAuthorized")
		}
	}
	r.Check(nS >= 1, "R-C07.5", "protocol.attemptFetch returns the ErrNotAuthorized sentinel", p.Pos(AF.Pos()), "the sentinel itself (errors.Is holds)", "the not-authorized outcome is not reported with the ErrNotAuthorized sentinel value")
	afc := callsTo(D, AF)
	if len(afc) != 1 {
		r.Unk("R-C07.5", dname+" attemptFetch call", p.Pos(D.Pos()), fmt.Sprintf("%d calls", len(afc)))
		return
	}
	e := extractOf(afc[0], 1)
	// the tested error value is e or a phi / errors.Join containing e
	holds := func(v ssa.Value) bool {
		seen := map[ssa.Value]bool{}
		var walk func(x ssa.Value) bool
		walk = func(x ssa.Value) bool {
			if x == e {
				return true
			}
			if seen[x] {
				return false
			}
			seen[x] = true
			switch y := x.(type) {
			case *ssa.Phi:
				// every edge must carry e (then v == nil implies e == nil)
				for _, ed := range y.Edges {
					if !walk(ed) {
						return false
					}
				}
				return true
			case *ssa.Call:
				if core.CalleeName(y.Common()) == "errors.Join" {
					for _, a := range core.SliceLiteralElems(y.Call.Args[0]) {
						if walk(a) {
							return true
						}
					}
				}
			}
			return false
		}
		return walk(v)
	}
	gFetchOK := core.Guard{Name: "attemptFetch error (possibly joined) is nil", Match: func(cond ssa.Value) (int, bool) {
		bo, ok := cond.(*ssa.BinOp)
		if !ok || (bo.Op.String() != "!=" && bo.Op.String() != "==") {
			return 0, false
		}
		var v ssa.Value
		switch {
		case core.IsNilConst(bo.Y):
			v = bo.X
		case core.IsNilConst(bo.X):
			v = bo.Y
		default:
			return 0, false
		}
		if !holds(v) {
			return 0, false
		}
		if bo.Op.String() == "!=" {
			return 1, true
		}
		return 0, true
	}}
	hcalls := callsNamed(D, "(*"+typesPkg+".NodeCredentials).HandleFetchNodeCredentialsResponse")
	if len(hcalls) == 0 {
		r.Unk("R-C07.5", dname+" HandleFetchNodeCredentialsResponse call", p.Pos(D.Pos()), "none")
	}
	for i, hc := range hcalls {
		res := core.CutReach(p, D, gFetchOK, hc.Block())
		r.CutOb(p, "R-C07.5", fmt.Sprintf("%s stores certificates only after a successful fetch #%d", dname, i), p.Pos(hc.Pos()), res, gFetchOK)
		r.Check(core.Strip(hc.Call.Args[3]) == extractOf(afc[0], 0), "R-C07.5", fmt.Sprintf("%s handles the fetched response #%d", dname, i), p.Pos(hc.Pos()), "the response attemptFetch returned", "a different response than the fetched one is handled")
	}
	// the error Dial returns on the fetch-failure edge carries e itself
	okRet := false
	for _, ret := range core.Returns(D) {
		if holds(ret.Results[1]) {
			okRet = true
		}
	}
	r.Check(okRet, "R-C07.5", dname+" returns attemptFetch's error unwrapped or joined", p.Pos(afc[0].Pos()), "errors.Is(err, ErrNotAuthorized) holds for the caller", "Dial re-wraps the fetch error without %w/Join: callers cannot recognise ErrNotAuthorized")

	c09Filters(c)
	// the verification both sides run (chain to the given pool, nonce as DNS name, expected key): C02's rule, evaluated here too
	c.R.Rule("R-C02.1", "VerifyConnection closure of tls.standardTlsConfig (C02's rule, evaluated here: the client relies on it to reject foreign roots and certificates minted for another nonce)")
	c02Verify(c)
	if _, G := listenerClosure(c, "R-C02.2"); G != nil {
		c.R.Rule("R-C02.2", "the verification waiver option WithAlpnProtoPrefix(<fetch prefix>) is built only in the listener's fetch branch (C02's rule, evaluated here: on the node side the same option would switch off chain, nonce and key checks)")
		c02WaiverSites(c, G, "R-C02.2")
	}
}

// c07ClientCert checks the certificate-selection callback installed by
// ClientConfigs.
func c07ClientCert(c *Ctx, CC *ssa.Function) {
	p, r := c.P, c.R
	c07OwnProtos(c, CC)
	var cb *ssa.Function
	for _, st := range storesToField(CC, "tls.Config", "GetClientCertificate") {
		cb = fnValue(st.Val)
	}
	if cb == nil {
		r.Unk("R-C07.7", "tls.ClientConfigs GetClientCertificate callback", p.Pos(CC.Pos()), "no callback installed")
		return
	}
	r.Fn(core.FuncName(cb))
	name := core.FuncName(cb)
	cri := ssa.Value(cb.Params[0])
	// a bundle value is a range element of the captured certMap
	isRangeElem := func(v ssa.Value) bool {
		ex, ok := core.Strip(v).(*ssa.Extract)
		if !ok {
			return false
		}
		nx, ok := ex.Tuple.(*ssa.Next)
		if !ok || ex.Index != 2 {
			return false
		}
		rg, ok := nx.Iter.(*ssa.Range)
		if !ok {
			return false
		}
		rp := core.PathOf(rg.X)
		fv, isFv := rp.Root.(*ssa.FreeVar)
		return isFv && fv.Name() == "certMap" && len(rp.Fields) == 0
	}
	g := core.BytesEq("bundle.ca.RawSubject, acceptable CA", func(pp core.Path) bool {
		return pp.HasFields("ca", "RawSubject") && isRangeElem(pp.Root)
	}, func(pp core.Path) bool {
		sp, ok := elemOf(pp.Root)
		return ok && len(pp.Fields) == 0 && sp.Root == cri && sp.HasFields("AcceptableCAs")
	})
	n := 0
	for i, ret := range core.SuccessReturns(cb) {
		if core.IsNilConst(ret.Results[0]) {
			continue
		}
		n++
		res := core.CutReach(p, cb, g, ret.Block())
		r.CutOb(p, "R-C07.7", fmt.Sprintf("%s certificate-return#%d", name, i), p.Pos(ret.Pos()), res, g)
		// the returned chain is that bundle's
		okChain := false
		if al, ok := core.Strip(ret.Results[0]).(*ssa.Alloc); ok {
			for _, fs := range fieldStores(al) {
				if fs.Field == "Leaf" {
					lp := core.PathOf(fs.Val)
					okChain = lp.HasFields("leaf") && isRangeElem(lp.Root)
				}
			}
		}
		r.Check(okChain, "R-C07.7", fmt.Sprintf("%s certificate-return#%d chain", name, i), p.Pos(ret.Pos()), "the matching stored chain is presented", "the presented certificate is not the chain whose CA matched")
	}
	if n == 0 {
		r.Unk("R-C07.7", name+" certificate returns", p.Pos(cb.Pos()), "the callback never returns a certificate")
	}
}


// c07OwnProtos: R-C07.8.
func c07OwnProtos(c *Ctx, CC *ssa.Function) {
	p, r := c.P, c.R
	sts := storesToField(CC, "tls.Config", "NextProtos")
	if len(sts) == 0 {
		r.Unk("R-C07.8", "tls.ClientConfigs NextProtos stores", p.Pos(CC.Pos()), "no store to tls.Config.NextProtos")
		return
	}
	for i, st := range sts {
		construct := fmt.Sprintf("tls.ClientConfigs NextProtos store#%d", i)
		scc := sccOf(st.Block())
		if scc == nil {
			r.OK("R-C07.8", construct, p.Pos(st.Pos()), "not inside a loop")
			continue
		}
		bad := ""
		seen := map[ssa.Value]bool{}
		var walk func(v ssa.Value)
		walk = func(v ssa.Value) {
			v = core.Strip(v)
			if seen[v] {
				return
			}
			seen[v] = true
			if ph, ok := v.(*ssa.Phi); ok {
				for _, e := range ph.Edges {
					walk(e)
				}
				return
			}
			base, _, isApp := appendParts(v)
			if !isApp {
				return
			}
			b := core.Strip(base)
			if core.IsNilConst(b) {
				return
			}
			// where is the base defined?
			var defBlock *ssa.BasicBlock
			if in, ok := b.(ssa.Instruction); ok {
				defBlock = in.Block()
			}
			if defBlock == nil || !scc[defBlock] {
				// capacity-exact bases always reallocate
				if sl, ok := b.(*ssa.Slice); ok && sl.Max != nil && sl.Max == sl.High {
					return
				}
				bad = "append at " + p.Pos(v.Pos()) + " extends " + core.ValueName(b) + ", which is defined outside the per-chain loop"
				return
			}
			walk(b)
		}
		walk(st.Val)
		r.Check(bad == "", "R-C07.8", construct, p.Pos(st.Pos()), "every append feeding this list starts from a slice made in the same iteration",
			bad+": configurations built in different iterations can share one backing array, so all of them carry the last certificate selector")
	}
}
