package rules

import (
	"fmt"
	"sort"
	"strings"

	"nechk/core"

	"golang.org/x/tools/go/ssa"
)

// wrapSite is one Encrypt/Decrypt call on a storage wrapper.
type wrapSite struct {
	call  *ssa.Call
	data  string // field path of the sealed / unsealed data (relative to the record)
	aad   string // field path of the AAD (relative to the record), or description
	aadOK bool
}

// aadOperand finds the wrapping.WithAad(x) option passed to a wrapper call
// and returns x.
func aadOperand(call *ssa.Call) ssa.Value {
	for _, a := range call.Common().Args {
		// variadic options: slice of alloc with stores
		sl, ok := a.(*ssa.Slice)
		if !ok {
			continue
		}
		al, ok := sl.X.(*ssa.Alloc)
		if !ok {
			continue
		}
		for _, ref := range *al.Referrers() {
			ia, ok := ref.(*ssa.IndexAddr)
			if !ok {
				continue
			}
			for _, r2 := range *ia.Referrers() {
				st, ok := r2.(*ssa.Store)
				if !ok {
					continue
				}
				if oc, _ := core.CallResult(core.Strip(st.Val)); oc != nil && core.CalleeName(oc.Common()) == "github.com/hashicorp/go-kms-wrapping/v2.WithAad" {
					return oc.Call.Args[0]
				}
			}
		}
	}
	return nil
}

// relPath renders a path's fields, resolving range-loop elements over a
// two-element literal of record fields ("Current|Next").
func relFields(pth core.Path) string {
	return strings.Join(pth.Fields, ".")
}

// wrapSites lists Encrypt (enc=true) or Decrypt calls in fn - and in module
// helpers / local closures it calls, once per call chain - with their data
// and AAD operands rendered relative to their record.
func wrapSites(fn *ssa.Function, enc bool) []wrapSite {
	var out []wrapSite
	sites := core.DeepFind(fn, core.MaxSummaryDepth, func(in ssa.Instruction) bool {
		call, ok := in.(*ssa.Call)
		if !ok {
			return false
		}
		eff, ok := core.WrapperMethod(call.Common())
		return ok && (eff == core.EffWrap) == enc
	})
	for _, site := range sites {
		call := site.Instr.(*ssa.Call)
		site := site
		site.In(func() {
			core.EachRow(call, func(_ *ssa.Alloc, _ int) {
				ws := wrapSite{call: call}
				data := call.Common().Args[1]
				if enc {
					ws.data = relFields(core.PathOf(data))
				} else {
					// data is a BlobInfo unmarshalled from a record field
					ws.data = blobSource(site.Fn, core.Strip(data))
				}
				if aad := aadOperand(call); aad != nil {
					ap := core.PathOf(aad)
					ws.aad = relFields(ap)
					ws.aadOK = len(ap.Fields) > 0
					if len(ap.Fields) == 0 {
						ws.aad = core.ValueName(ap.Root)
					}
				} else {
					ws.aad = "<none>"
				}
				out = append(out, ws)
			})
		})
	}
	return out
}

// blobSource finds proto.Unmarshal(record.Field, blob) and returns the field.
func blobSource(fn *ssa.Function, blob ssa.Value) string {
	for _, u := range callsNamed(fn, "google.golang.org/protobuf/proto.Unmarshal") {
		if core.Strip(u.Call.Args[1]) == blob {
			return relFields(core.PathOf(u.Call.Args[0]))
		}
	}
	return "?"
}

// aadAgreement checks that Store's Encrypt calls and Load's Decrypt calls
// agree per sealed field on the AAD operand (same record-bound field), and
// that the sets of sealed and unsealed fields are equal.
func aadAgreement(c *Ctx, rule, storeName, loadName, typeName string) {
	p, r := c.P, c.R
	st := c.need(rule, "types", storeName)
	ld := c.need(rule, "types", loadName)
	if st == nil || ld == nil {
		return
	}
	// Load may delegate unsealing to a helper (decryptForLoad)
	ldSites := wrapSites(ld, false)
	if len(ldSites) == 0 {
		for _, cal := range calleesInModule(ld) {
			if s := wrapSites(cal, false); len(s) > 0 {
				ldSites = s
				r.Fn(core.FuncName(cal))
				ld = cal
			}
		}
	}
	stSites := wrapSites(st, true)
	if len(stSites) == 0 || len(ldSites) == 0 {
		r.Unk(rule, typeName+" seal/unseal sites", p.Pos(st.Pos()), fmt.Sprintf("encrypt sites=%d decrypt sites=%d", len(stSites), len(ldSites)))
		return
	}
	enc := map[string]string{}
	dec := map[string]string{}
	for _, s := range stSites {
		enc[s.data] = s.aad
	}
	for _, s := range ldSites {
		dec[s.data] = s.aad
	}
	var fields []string
	for f := range enc {
		fields = append(fields, f)
	}
	for f := range dec {
		if _, ok := enc[f]; !ok {
			fields = append(fields, f)
		}
	}
	sort.Strings(fields)
	for _, f := range fields {
		e, eok := enc[f]
		d, dok := dec[f]
		construct := typeName + " sealed field " + f
		switch {
		case !eok:
			r.Bad(rule, construct, p.Pos(ld.Pos()), "field is unsealed on load but never sealed on store")
		case !dok:
			r.Bad(rule, construct, p.Pos(st.Pos()), "field is sealed on store but never unsealed on load")
		case e == "<none>" || d == "<none>":
			r.Bad(rule, construct, p.Pos(st.Pos()), "sealed without additional authenticated data: encrypt AAD="+e+" decrypt AAD="+d)
		case e != d && !(typeName == "ServerLedActivationToken" && e == "Id" && strings.HasPrefix(d, "param:")):
			r.Bad(rule, construct, p.Pos(st.Pos()), "encrypt AAD is ."+e+" but decrypt AAD is ."+d+": a sealed value is not bound to the same record field on both sides")
		default:
			r.OK(rule, construct, p.Pos(st.Pos()), "AAD on both sides: ."+e+" / ."+d)
		}
	}
	// token: the load's AAD is the id parameter, which must also be the loaded record's Id
	if typeName == "ServerLedActivationToken" {
		ok := false
		for _, s := range storesToField(ld, "types.ServerLedActivationToken", "Id") {
			if pr, isP := core.Strip(s.Val).(*ssa.Parameter); isP && pr.Name() == "id" {
				ok = true
			}
		}
		r.Check(ok, rule, typeName+" load AAD parameter is the record ID", p.Pos(ld.Pos()), "the id parameter is the loaded record's Id", "the id used as AAD is not the Id of the record being loaded")
		// ... and the AAD is that lookup key itself, not a field read back from the
		// record storage returned: the token's identity is the key it is looked up
		// by, the stored bytes are not trusted
		for f, d := range dec {
			r.Check(strings.HasPrefix(d, "param:"), rule, typeName+" sealed field "+f+" is unsealed under the id looked up", p.Pos(ld.Pos()),
				"decrypt AAD is the lookup parameter", "decrypt AAD is ."+d+" of the record as returned by storage, not the id looked up: a sealed value copied from another token's record still opens (sealed values can be moved between tokens)")
		}
	}
}
