package rules

import (
	"fmt"
	"sort"
	"strings"

	"nechk/core"

	"golang.org/x/tools/go/ssa"
)

func init() { All["C10"] = c10 }

// loadedByRequestKey reports whether v is result #0 of
// LoadNodeInformation(KeyIdFromPkix(<root>.CertificatePublicKeyPkix)).
func loadedByRequestKey(v ssa.Value, root ssa.Value) bool {
	lc, idx := core.CallResult(core.Strip(v))
	if lc == nil || idx != 0 || core.CalleeName(lc.Common()) != typesPkg+".LoadNodeInformation" {
		return false
	}
	idc, i0 := core.CallResult(core.Strip(lc.Call.Args[2]))
	if idc == nil || i0 != 0 || core.CalleeName(idc.Common()) != mod+".KeyIdFromPkix" {
		return false
	}
	ap := core.PathOf(idc.Call.Args[0])
	return ap.Root == root && ap.HasFields("CertificatePublicKeyPkix")
}

// sliceLiteralElems returns the values stored into the backing array of a
// slice literal value ([]T{a, b}).
func sliceLiteralElems(v ssa.Value) ([]ssa.Value, bool) {
	sl, ok := v.(*ssa.Slice)
	if !ok {
		return nil, false
	}
	al, ok := sl.X.(*ssa.Alloc)
	if !ok {
		return nil, false
	}
	var out []ssa.Value
	for _, ref := range *al.Referrers() {
		ia, ok := ref.(*ssa.IndexAddr)
		if !ok {
			continue
		}
		for _, r2 := range *ia.Referrers() {
			if st, ok := r2.(*ssa.Store); ok && st.Addr == ia {
				out = append(out, st.Val)
			}
		}
	}
	return out, true
}

// eachSource runs f on every non-phi value v may take, looking through module
// helpers that return it (helper parameters bound to the call's arguments).
func eachSource(v ssa.Value, f func(ssa.Value), anchors ...string) {
	for _, x := range flattenPhi(v) {
		eachValue(x, func(y ssa.Value) {
			for _, z := range flattenPhi(y) {
				f(z)
			}
		}, anchors...)
	}
}

// sameAs: every non-nil value v may take (through helpers) is target.
func sameAs(v, target ssa.Value) bool {
	ok, n := true, 0
	eachSource(v, func(x ssa.Value) {
		if core.IsNilConst(x) {
			return
		}
		n++
		if x != target {
			ok = false
		}
	})
	return ok && n > 0
}

func c10(c *Ctx) {
	p, r := c.P, c.R
	r.Rule("R-C10.1", "in rotation.RotateNodeCredentials the AuthorizeNode call is cut by success of DecryptMessage(req.EncryptedFetchNodeCredentialsRequest, n, fetchRequest) for a record n loaded by the key ID of req.CertificatePublicKeyPkix or an element of the node-ID set of req.NodeId (nil-phi sensitive); the request passed on is the decrypted one")
	r.Rule("R-C10.6", "a request that names a node ID is authenticated only against that node's records: the record set built from the key-ID lookup (KeyIdFromPkix of the request's unauthenticated certificate key) is reachable only where req.NodeId is empty or the storage cannot look up by node ID")
	r.Rule("R-C10.2", "the AuthorizeNode option list carries WithState(n'.State) of the authenticating record")
	r.Rule("R-C10.3", "the reply is EncryptMessage(FetchNodeCredentials(fetchRequest), n') with n' a clone of the authenticating record; EncryptMessage never uses the previous key")
	r.Rule("R-C10.4", "AuthorizeNode refuses token-sized nonces and existing records (R-C01.6, evaluated here too)")
	r.Rule("R-C10.5", "no storage write or removal is reachable from RotateNodeCredentials except through AuthorizeNode / FetchNodeCredentials, and no field of a node record is written")
	r.NotDecided = append(r.NotDecided, "decryption semantics (a wrong key really fails)", "replay histories beyond the existing-record guard")

	fn := c.need("R-C10.1", "rotation", "RotateNodeCredentials")
	if fn == nil {
		return
	}
	name := "rotation.RotateNodeCredentials"
	req := paramOfType(fn, typesPkg, "RotateNodeCredentialsRequest")
	auths := callsNamed(fn, mod+"/registration.AuthorizeNode")
	decSites := core.DeepCalls(fn, core.MaxSummaryDepth, mod+".DecryptMessage")
	var decs []*ssa.Call
	// the decryptions RotateNodeCredentials itself performs: not those inside
	// the authorisation / fetch entry points it delegates to
	{
		var own []core.DeepSite
		for _, ds := range decSites {
			deleg := false
			for _, ci := range ds.Chain {
				switch core.CalleeName(ci.Common()) {
				case mod + "/registration.AuthorizeNode", mod + "/registration.FetchNodeCredentials":
					deleg = true
				}
			}
			if !deleg {
				own = append(own, ds)
			}
		}
		decSites = own
	}
	for _, ds := range decSites {
		if dc, ok := ds.Instr.(*ssa.Call); ok {
			decs = append(decs, dc)
			if len(ds.Chain) > 0 {
				r.Fn(core.FuncName(ds.Fn))
			}
		}
	}
	if req == nil || len(auths) == 0 || len(decs) == 0 {
		r.Unk("R-C10.1", name+" anchors", p.Pos(fn.Pos()), fmt.Sprintf("request param=%v AuthorizeNode calls=%d DecryptMessage calls=%d", req != nil, len(auths), len(decs)))
		return
	}
	keyIdSets := map[*ssa.Alloc]bool{}
	// approved decrypt calls
	approved := map[*ssa.Call]bool{}
	var fetchReq ssa.Value
	var authRecord ssa.Value
	for i, d := range decs {
		i, d := i, d
		decSites[i].In(func() {
			construct := fmt.Sprintf("%s DecryptMessage#%d", name, i)
			ct := core.PathOf(d.Call.Args[1])
			okCt := ct.Root == req && ct.HasFields("EncryptedFetchNodeCredentialsRequest")
			rec := core.Strip(d.Call.Args[2])
			okRec, why := false, core.ValueName(rec)
			if sp, isElem := elemOf(rec); isElem && sp.HasFields("Nodes") {
				okRec = true
				eachSource(sp.Root, func(src ssa.Value) {
					if core.IsNilConst(src) {
						return
					}
					if lc, idx := core.CallResult(src); lc != nil && idx == 0 && core.CalleeName(lc.Common()) == typesPkg+".LoadNodeInformationSetByNodeId" {
						ap := core.PathOf(lc.Call.Args[2])
						if ap.Root == req && ap.HasFields("NodeId") {
							return
						}
						okRec, why = false, "node-ID set loaded for "+ap.String()
						return
					}
					if al, isAl := src.(*ssa.Alloc); isAl && namedType(al.Type(), typesPkg, "NodeInformationSet") {
						keyIdSets[al] = true
						good := false
						for _, st := range storesToField(al.Parent(), "types.NodeInformationSet", "Nodes") {
							if core.PathOf(st.Addr).Root != al {
								continue
							}
							if elems, ok := sliceLiteralElems(st.Val); ok && len(elems) > 0 {
								good = true
								for _, e := range elems {
									if !loadedByRequestKey(e, req) {
										good = false
									}
								}
							}
						}
						if good {
							return
						}
						okRec, why = false, "record set literal not filled from LoadNodeInformation(KeyIdFromPkix(req.CertificatePublicKeyPkix))"
						return
					}
					okRec, why = false, "unreviewed record-set source "+core.ValueName(src)
				}, typesPkg+".LoadNodeInformationSetByNodeId", typesPkg+".LoadNodeInformation")
				if okRec {
					why = "element of the record set loaded for the request's node ID or certificate key"
				}
			}
			if okCt && okRec {
				approved[d] = true
				fetchReq = core.Strip(d.Call.Args[3])
				authRecord = rec
			}
			r.Check(okCt && okRec, "R-C10.1", construct+" operands", p.Pos(d.Pos()), "decrypts req.EncryptedFetchNodeCredentialsRequest under "+why,
				fmt.Sprintf("decrypt does not authenticate the request against a stored record of the identified node (ciphertext=%s ok=%v; key source: %s)", ct.String(), okCt, why))
		})
	}
	// R-C10.6
	{
		gNoNodeId := core.Guard{Name: "req.NodeId empty or storage is no NodeIdLoader", Match: func(cond ssa.Value) (int, bool) {
			// !ok of storage.(NodeIdLoader)
			if ex, isEx := cond.(*ssa.Extract); isEx && ex.Index == 1 {
				if ta, isTA := ex.Tuple.(*ssa.TypeAssert); isTA && ta.CommaOk && strings.HasSuffix(ta.AssertedType.String(), "nodeenrollment.NodeIdLoader") {
					return 1, true
				}
			}
			g := strEmptyGuard("req.NodeId", func(pp core.Path) bool { return pp.Root == ssa.Value(req) && pp.HasFields("NodeId") })
			return g.Match(cond)
		}}
		var als []*ssa.Alloc
		for al := range keyIdSets {
			als = append(als, al)
		}
		sort.Slice(als, func(i, j int) bool { return als[i].Pos() < als[j].Pos() })
		for i, al := range als {
			res := core.CutReach(p, fn, gNoNodeId, al.Block())
			r.CutOb(p, "R-C10.6", fmt.Sprintf("%s key-ID record set#%d", name, i), p.Pos(al.Pos()), res, gNoNodeId)
		}
		if len(als) == 0 {
			r.OK("R-C10.6", name+" key-ID record set", p.Pos(fn.Pos()), "no record set is built from a key-ID lookup")
		}
	}
	gDec := core.ErrNil("DecryptMessage(req.Encrypted..., record, fetchRequest)", func(x *ssa.Call) bool { return approved[x] })
	for i, ac := range auths {
		res := core.CutReach(p, fn, gDec, ac.Block())
		r.CutOb(p, "R-C10.1", fmt.Sprintf("%s AuthorizeNode-call#%d", name, i), p.Pos(ac.Pos()), res, gDec)
		r.Check(fetchReq != nil && sameAs(ac.Call.Args[2], fetchReq), "R-C10.1", fmt.Sprintf("%s AuthorizeNode-call#%d request", name, i), p.Pos(ac.Pos()),
			"authorises the decrypted inner request", "the request handed to AuthorizeNode is not the message DecryptMessage filled")
	}

	// K' : key source of the reply encryption
	encs := callsNamed(fn, mod+".EncryptMessage")
	if len(encs) != 1 {
		r.Unk("R-C10.3", name+" reply encryption", p.Pos(fn.Pos()), fmt.Sprintf("%d EncryptMessage calls, want 1", len(encs)))
		return
	}
	enc := encs[0]
	Kp := core.Strip(enc.Call.Args[2])
	okK := true
	whyK := ""
	eachSource(Kp, func(src ssa.Value) {
		if core.IsNilConst(src) {
			return
		}
		// TypeAssert(proto.Clone(n)) or n itself
		v := src
		if ta, ok := v.(*ssa.TypeAssert); ok {
			v = core.Strip(ta.X)
		}
		if cc, _ := core.CallResult(v); cc != nil && core.CalleeName(cc.Common()) == "google.golang.org/protobuf/proto.Clone" {
			v = core.Strip(cc.Call.Args[0])
		}
		if v != authRecord {
			okK = false
			whyK = core.ValueName(src)
		}
	})
	r.Check(okK && authRecord != nil, "R-C10.3", name+" reply key source", p.Pos(enc.Pos()), "reply is encrypted under (a clone of) the authenticating record", "reply key source is not the record that decrypted the request: "+whyK)
	// inner response comes from FetchNodeCredentials(fetchRequest)
	fc, fi := core.CallResult(core.Strip(enc.Call.Args[1]))
	okF := fc != nil && fi == 0 && core.CalleeName(fc.Common()) == mod+"/registration.FetchNodeCredentials" && sameAs(fc.Call.Args[2], fetchReq)
	r.Check(okF, "R-C10.3", name+" reply payload", p.Pos(enc.Pos()), "payload is FetchNodeCredentials(decrypted request)", "payload is not the fetch response for the decrypted request")
	// returned message carries the EncryptMessage result
	okRet := false
	for _, st := range storesToField(fn, "types.RotateNodeCredentialsResponse", "EncryptedFetchNodeCredentialsResponse") {
		if core.Strip(st.Val) == extractOf(enc, 0) {
			okRet = true
		}
	}
	r.Check(okRet, "R-C10.3", name+" returned message", p.Pos(enc.Pos()), "response carries the encrypted reply", "the returned response does not carry the EncryptMessage result")
	// the fetch call is after authorisation success
	if fc != nil {
		gAuth := core.ErrNil("AuthorizeNode", core.CallNamed(mod+"/registration.AuthorizeNode"))
		res := core.CutReach(p, fn, gAuth, fc.Block())
		r.CutOb(p, "R-C10.3", name+" fetch after successful authorisation", p.Pos(fc.Pos()), res, gAuth)
	}
	// EncryptMessage never uses the previous key
	if em := c.need("R-C10.3", "", "EncryptMessage"); em != nil {
		prev := false
		for _, ci := range core.AllCalls(em) {
			if ci.Common().IsInvoke() && ci.Common().Method.Name() == "PreviousX25519EncryptionKey" {
				prev = true
			}
		}
		r.Check(!prev, "R-C10.3", "nodeenrollment.EncryptMessage key choice", p.Pos(em.Pos()), "only the current shared key is used for encryption", "EncryptMessage may encrypt under the previous key")
	}

	// R-C10.2
	for i, ac := range auths {
		found, okState := false, false
		for _, arg := range ac.Call.Args {
			ap, _ := core.CallResult(core.Strip(arg))
			if ap == nil || core.CalleeName(ap.Common()) != "builtin:append" {
				continue
			}
			if elems, ok := sliceLiteralElems(ap.Call.Args[1]); ok {
				for _, e := range elems {
					if oc, _ := core.CallResult(core.Strip(e)); oc != nil && core.CalleeName(oc.Common()) == mod+".WithState" {
						found = true
						sp := core.PathOf(oc.Call.Args[0])
						okState = sp.Root == Kp && sp.HasFields("State")
					}
				}
			}
		}
		r.Check(found && okState, "R-C10.2", fmt.Sprintf("%s AuthorizeNode-call#%d state option", name, i), p.Pos(ac.Pos()),
			"WithState(authenticating record's State) appended", "the new registration does not carry over the authenticating record's state")
	}

	// R-C10.4
	c01Authorize(c)
	// the decryption the request is authenticated by (C11's key-pair and attempt rules, evaluated here too)
	r.Rule("R-C11.1", "DecryptMessage: every attempt uses (key ID, key) from one producer call; a successful attempt is final; success only after an attempt succeeded (C11's rules, evaluated here: rotation is authenticated by this decryption)")
	c11Decrypt(c)

	// R-C10.5
	cg := core.BuildCallGraph(p)
	n := 0
	for _, ci := range core.AllCalls(fn) {
		eff := cg.CallEffects(ci)
		if !eff[core.EffStore] && !eff[core.EffRemove] {
			continue
		}
		n++
		nm := core.CalleeName(ci.Common())
		okc := nm == mod+"/registration.AuthorizeNode" || nm == mod+"/registration.FetchNodeCredentials"
		r.Check(okc, "R-C10.5", name+" writing call "+shortName(nm), p.Pos(ci.Pos()), "write only through the authorisation/fetch path", "storage write or removal reachable outside AuthorizeNode/FetchNodeCredentials")
	}
	if n == 0 {
		r.Unk("R-C10.5", name+" writing calls", p.Pos(fn.Pos()), "no call that may write storage found (AuthorizeNode expected)")
	}
	nst := 0
	for _, b := range fn.Blocks {
		for _, in := range b.Instrs {
			if st, ok := in.(*ssa.Store); ok {
				if fa, ok := st.Addr.(*ssa.FieldAddr); ok {
					if tn, f := core.FieldAddrName(fa); tn == "types.NodeInformation" {
						nst++
						r.Bad("R-C10.5", name+" store to NodeInformation."+f, p.Pos(st.Pos()), "a field of a node record is written during rotation")
					}
				}
			}
		}
	}
	if nst == 0 {
		r.OK("R-C10.5", name+" no node-record field writes", p.Pos(fn.Pos()), "no store to a NodeInformation field")
	}
}
