#!/usr/bin/env python3
"""Validates MANIFEST.json and every evidence file against the schemas (run with python3-vt)."""
import json, glob, sys, jsonschema
ok = True
try:
    jsonschema.validate(json.load(open('/verif/MANIFEST.json')), json.load(open('/root/.vp/MANIFEST.schema.json')))
    print("MANIFEST.json valid")
except Exception as e:
    ok = False; print("MANIFEST invalid:", e)
es = json.load(open('/root/.vp/EVIDENCE.schema.json'))
for f in sorted(glob.glob('/verif/evidence/C*.json')):
    try:
        jsonschema.validate(json.load(open(f)), es)
    except Exception as e:
        ok = False; print(f, "invalid:", str(e)[:300])
print("evidence files:", len(glob.glob('/verif/evidence/C*.json')))
sys.exit(0 if ok else 1)
