#!/usr/bin/env python3
"""Seeded single-site defects used to validate the checker (never applied to /repo).

  mut.py add  <prop> <name> <file> <old> <new> [--test pkg]   create mutants/<prop>/<name>.patch from /repo's file
  mut.py run  [<prop> ...]                                    apply each patch to a scratch copy, build, run nechk, expect exit 1
"""
import sys, os, subprocess, difflib, tempfile, shutil, json, glob
HERE = os.path.dirname(os.path.abspath(__file__))
REPO = "/repo"
ENV = dict(os.environ, GOFLAGS="-mod=mod", GOPROXY="off", GOSUMDB="off", GOTOOLCHAIN="local", GOWORK="off")

def scratch():
    d = tempfile.mkdtemp(prefix="nechk-mut-")
    subprocess.check_call(["rsync", "-a", "--exclude", ".git", REPO + "/", d + "/"])
    return d

def add(prop, name, file, old, new, testpkg=None):
    src = open(os.path.join(REPO, file)).read()
    if src.count(old) != 1:
        sys.exit(f"old text occurs {src.count(old)} times in {file}")
    dst = src.replace(old, new)
    diff = "".join(difflib.unified_diff(src.splitlines(True), dst.splitlines(True), "a/" + file, "b/" + file))
    os.makedirs(os.path.join(HERE, "mutants", prop), exist_ok=True)
    path = os.path.join(HERE, "mutants", prop, name + ".patch")
    open(path, "w").write(diff)
    d = scratch()
    try:
        subprocess.check_call(["patch", "-s", "-p1", "-d", d, "-i", path])
        r = subprocess.run(["go", "build", "./..."], cwd=d, env=ENV, capture_output=True, text=True)
        if r.returncode != 0:
            os.remove(path); sys.exit("mutant does not compile:\n" + r.stderr)
        if testpkg:
            r = subprocess.run(["go", "test", "-count=1", "-vet=off"] + testpkg.split(), cwd=d, env=ENV, capture_output=True, text=True)
            print("tests:", "PASS" if r.returncode == 0 else "FAIL\n" + r.stdout[-2000:])
            if r.returncode != 0:
                os.remove(path); sys.exit("mutant fails the existing tests; not kept")
    finally:
        shutil.rmtree(d)
    print("wrote", path)

def run(props):
    if not props:
        props = sorted(os.path.basename(p) for p in glob.glob(os.path.join(HERE, "mutants", "C*")))
    subprocess.check_call(["go", "build", "-o", os.path.join(HERE, "bin", "nechk"), "./cmd/nechk"], cwd=os.path.join(HERE, "checker"), env=ENV)
    total = killed = 0
    for prop in props:
        for path in sorted(glob.glob(os.path.join(HERE, "mutants", prop, "*.patch"))):
            total += 1
            d = scratch()
            try:
                r = subprocess.run(["patch", "-s", "-p1", "-d", d, "-i", path], capture_output=True, text=True)
                if r.returncode != 0:
                    print(f"{prop} {os.path.basename(path)}: PATCH DOES NOT APPLY"); continue
                r = subprocess.run([os.path.join(HERE, "bin", "nechk"), "-property", prop, "-repo", d, "-verif", HERE, "-no-evidence", "-no-replay"], capture_output=True, text=True, env=ENV)
                lines = [l for l in r.stdout.splitlines() if l.strip().startswith(("VIOLATED", "UNDECIDED"))]
                if r.returncode == 1:
                    killed += 1
                    print(f"{prop} {os.path.basename(path)}: killed  ({len(lines)} reports; first: {lines[0].strip()[:150] if lines else '-'})")
                else:
                    print(f"{prop} {os.path.basename(path)}: SURVIVED (exit {r.returncode})")
            finally:
                shutil.rmtree(d)
    print(f"killed {killed}/{total}")
    return 0 if killed == total else 1

if __name__ == "__main__":
    if sys.argv[1] == "add":
        a = sys.argv[2:]
        t = None
        if "--test" in a:
            i = a.index("--test"); t = a[i + 1]; a = a[:i]
        add(*a, testpkg=t)
    elif sys.argv[1] == "run":
        sys.exit(run(sys.argv[2:]))
