#!/bin/bash
# usage: benign_run.sh <id> : applies /tmp/benign/out-<id>/patch.diff in /tmp/benign/<id> and runs all 20 checks there
ID=$1; W=/tmp/benign/$ID
cd $W && git checkout -q -- . && git clean -fdq && git apply /tmp/benign/out${BROUND:-}-$ID/patch.diff || { echo "$ID: patch does not apply"; exit 1; }
for p in C01 C02 C03 C04 C05 C06 C07 C08 C09 C10 C11 C12 C13 C14 C15 C16 C17 C18 C19 C20; do
  out=$(/verif/bin/nechk -property $p -repo $W -verif /verif -no-evidence -no-replay)
  if [ $? -ne 0 ]; then echo "== benign $ID alarms $p:"; echo "$out" | grep -E "^  (VIOLATED|UNDECIDED)" -A1 | cut -c1-300; fi
done
echo "benign $ID done"
