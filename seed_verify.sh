#!/bin/bash
# usage: seed_verify.sh <id> <pkgdir> [demo-run-regex]
# Confirms an agent-produced seeded change in its scratch worktree /tmp/seed/<id>:
# with the patch: build OK, existing tests pass, demo FAILS; without: demo passes.
set -u
ID=$1; DIR=$2; RUN=${3:-TestSeed}
W=/tmp/seed/$ID; OUT=/tmp/seed/out${SEEDROUND:-}-$ID
export GOFLAGS=-mod=mod GOPROXY=off GOSUMDB=off GOTOOLCHAIN=local
cd $W && git checkout -q -- . && git clean -fdq
DEMO=$(ls $OUT/zz_seed*_test.go | head -1)
git apply $OUT/patch.diff || { echo "$ID: PATCH DOES NOT APPLY"; exit 1; }
go build ./... || { echo "$ID: BUILD FAILS"; exit 1; }
if go test -count=1 -vet=off ./... > $OUT/verify_suite.log 2>&1; then echo "$ID: existing suite passes with the change"; else echo "$ID: EXISTING SUITE FAILS"; tail -5 $OUT/verify_suite.log; fi
cp $DEMO $DIR/
if go test -count=1 -vet=off -run "$RUN" ./$DIR/ > $OUT/verify_demo_with.log 2>&1; then echo "$ID: DEMO PASSES WITH CHANGE (bad)"; else echo "$ID: demo fails with the change (good)"; fi
git apply -R $OUT/patch.diff
if go test -count=1 -vet=off -run "$RUN" ./$DIR/ > $OUT/verify_demo_without.log 2>&1; then echo "$ID: demo passes without the change (good)"; else echo "$ID: DEMO FAILS WITHOUT CHANGE (bad)"; tail -5 $OUT/verify_demo_without.log; fi
rm -f $DIR/$(basename $DEMO); git checkout -q -- . ; git status --short | head -3
