#!/usr/bin/env python3
"""Applies every /verif/seeded/*/patch.diff to /repo in turn (git apply), runs the property's check
(no evidence written), and undoes it (git checkout). Writes seeded/RESULTS.md and detected_by into meta.json."""
import os, subprocess, json, glob, sys
HERE = os.path.dirname(os.path.abspath(__file__))
ENV = dict(os.environ, GOFLAGS="-mod=mod", GOPROXY="off", GOSUMDB="off", GOTOOLCHAIN="local", GOWORK="off")
subprocess.check_call(["go", "build", "-o", f"{HERE}/bin/nechk", "./cmd/nechk"], cwd=f"{HERE}/checker", env=ENV)
assert subprocess.run(["git", "-C", "/repo", "status", "--porcelain"], capture_output=True, text=True).stdout.strip() == "", "/repo not clean"
rows = []
only = sys.argv[1:]
for d in sorted(glob.glob(f"{HERE}/seeded/C*")):
    name = os.path.basename(d)
    if only and not any(name.startswith(o) or o in name for o in only):
        continue
    meta = json.load(open(f"{d}/meta.json"))
    prop = meta["property"]
    try:
        subprocess.check_call(["git", "-C", "/repo", "apply", f"{d}/patch.diff"])
        r = subprocess.run([f"{HERE}/bin/nechk", "-property", prop, "-repo", "/repo", "-verif", HERE, "-no-evidence", "-no-replay"], capture_output=True, text=True, env=ENV)
    finally:
        subprocess.check_call(["git", "-C", "/repo", "checkout", "--", "."])
        subprocess.check_call(["git", "-C", "/repo", "clean", "-fdq"])  # files a patch added (the tree was clean before)
    reports = [l.strip() for l in r.stdout.splitlines() if l.strip().startswith(("VIOLATED", "UNDECIDED"))]
    rules = sorted({l.split()[1] for l in reports})
    meta["detected"] = r.returncode == 1
    meta["detected_by"] = rules
    meta["reports"] = reports[:6]
    json.dump(meta, open(f"{d}/meta.json", "w"), indent=1)
    rows.append((name, prop, "DETECTED" if r.returncode == 1 else "MISSED", ", ".join(rules)))
    print(name, rows[-1][2], ", ".join(rules))
if not only:
    with open(f"{HERE}/seeded/RESULTS.md", "w") as f:
        f.write("# Seeded changes (from independent sub-agents) vs. the checks\n\n| change | property | result | rules that report it |\n|---|---|---|---|\n")
        for row in rows:
            f.write("| " + " | ".join(row) + " |\n")
assert subprocess.run(["git", "-C", "/repo", "status", "--porcelain"], capture_output=True, text=True).stdout.strip() == ""
