#!/bin/sh
# usage: check.sh <property-id> [quick|thorough]
# Decides one property by static analysis of /repo's current working tree.
set -u
HERE=$(cd "$(dirname "$0")" && pwd)
PROP=$1
TIER=${2:-${VERIF_TIER:-quick}}
export GOFLAGS=-mod=mod GOPROXY=off GOSUMDB=off GOTOOLCHAIN=local GOWORK=off
unset GOOS GOARCH
REPO=${NECHK_REPO:-/repo}
# (re)build the checker from the sources on disk; a no-op when up to date
(cd "$HERE/checker" && go build -o "$HERE/bin/nechk" ./cmd/nechk) || { echo "cannot build checker"; exit 2; }
if [ "$TIER" = "thorough" ]; then
  exec "$HERE/thorough.sh" "$PROP" "$REPO"
fi
exec "$HERE/bin/nechk" -property "$PROP" -tier quick -repo "$REPO" -verif "$HERE"
