#!/bin/sh
# thorough tier: the property's rule set on three more GOOS/GOARCH
# configurations (a build-tagged file cannot hide a variant of an anchored
# function), one process per configuration; then the property's seeded
# mutants, each on its own scratch copy (reported, never part of the exit
# status: on an edited tree a patch may not apply, which says nothing about the
# property); then the host configuration, which writes the evidence and
# records the other runs.
set -u
HERE=$(cd "$(dirname "$0")" && pwd)
PROP=$1
REPO=$2
rc=0
TMPF=$(mktemp)
trap 'rm -f "$TMPF"' EXIT
for cfg in linux/386 windows/amd64 darwin/arm64; do
  os=${cfg%/*}; arch=${cfg#*/}
  out=$("$HERE/bin/nechk" -property "$PROP" -tier thorough -repo "$REPO" -verif "$HERE" -goos "$os" -goarch "$arch" -no-evidence) || rc=1
  echo "$out" | grep -E '^(VIOLATION|  (VIOLATED|UNDECIDED))'
  echo "$cfg: $(echo "$out" | grep -E "^$PROP tier=")" >> "$TMPF"
done
if [ -d "$HERE/mutants/$PROP" ] && [ "$REPO" = "/repo" ]; then
  python3 "$HERE/mut.py" run "$PROP" 2>/dev/null | grep -E "^$PROP " | sed 's/^/mutant: /' >> "$TMPF"
fi
grep -c '^mutant: ' "$TMPF" | sed 's/^/mutants run: /'
"$HERE/bin/nechk" -property "$PROP" -tier thorough -repo "$REPO" -verif "$HERE" -extra-file "$TMPF" || rc=1
exit $rc
