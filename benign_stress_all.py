#!/usr/bin/env python3
"""STRESS batch (large multi-part refactorings; results recorded, silence not required): behaviour-preserving refactorings written by independent sub-agents
(/verif/benign/<id>/patch.diff). Each is applied to a scratch copy of /repo and ALL 20 checks are run
there; every check must stay silent. Usage: benign_all.py [name-prefix ...]"""
import os, subprocess, glob, sys, tempfile, shutil, json
HERE = os.path.dirname(os.path.abspath(__file__))
ENV = dict(os.environ, GOFLAGS="-mod=mod", GOPROXY="off", GOSUMDB="off", GOTOOLCHAIN="local", GOWORK="off")
props = [json.loads(l)["id"] for l in open(f"{HERE}/properties.jsonl")]
subprocess.check_call(["go", "build", "-o", f"{HERE}/bin/nechk", "./cmd/nechk"], cwd=f"{HERE}/checker", env=ENV)
only = sys.argv[1:]
bad = 0
rows = []
for d in sorted(glob.glob(f"{HERE}/benign_stress/C*")):
    name = os.path.basename(d)
    if only and not any(name.startswith(o) for o in only):
        continue
    w = tempfile.mkdtemp(prefix="nechk-benign-")
    try:
        subprocess.check_call(["rsync", "-a", "--exclude", ".git", "/repo/", w + "/"])
        r = subprocess.run(["patch", "-s", "-p1", "-d", w, "-i", f"{d}/patch.diff"], capture_output=True, text=True)
        if r.returncode != 0:
            print(name, "PATCH DOES NOT APPLY"); rows.append((name, "patch does not apply")); continue
        alarms = []
        for p in props:
            r = subprocess.run([f"{HERE}/bin/nechk", "-property", p, "-repo", w, "-verif", HERE, "-no-evidence", "-no-replay"], capture_output=True, text=True, env=ENV)
            if r.returncode != 0:
                alarms.append(p)
        print(name, "silent" if not alarms else "FALSE ALARM in " + ",".join(alarms))
        rows.append((name, "silent (all 20 checks)" if not alarms else "false alarm: " + ",".join(alarms)))
        bad += len(alarms)
    finally:
        shutil.rmtree(w)
if not only:
    with open(f"{HERE}/benign_stress/RESULTS.md", "w") as f:
        f.write("# Behaviour-preserving refactorings (negative controls) vs. all 20 checks\n\n| refactoring | result |\n|---|---|\n")
        for row in rows:
            f.write("| " + " | ".join(row) + " |\n")
sys.exit(0)  # a stress batch: results are recorded, not required
