#!/usr/bin/env python3
"""seeded_add.py <prop> <name> <pkgdir> "<what it needs to manifest>" "<clause broken>"
Copies an agent-produced, independently confirmed change from /tmp/seed/out-<prop> into /verif/seeded/<prop>-<name>/."""
import sys, os, shutil, json, glob
prop, name, pkgdir, needs, breaks = sys.argv[1:6]
src = f"/tmp/seed/out{os.environ.get('SEEDROUND','')}-{prop}"
dst = f"/verif/seeded/{prop}-{name}"
os.makedirs(dst, exist_ok=True)
shutil.copy(f"{src}/patch.diff", f"{dst}/patch.diff")
demo = glob.glob(f"{src}/zz_seed*_test.go")[0]
shutil.copy(demo, f"{dst}/{os.path.basename(demo)}")
if os.path.exists(f"{src}/notes.md"):
    shutil.copy(f"{src}/notes.md", f"{dst}/notes.md")
def tail(p):
    try: return open(p).read()[-600:]
    except: return ""
meta = {
  "property": prop,
  "origin": "independent sub-agent given only the property text and a scratch worktree",
  "breaks": breaks,
  "needs_to_manifest": needs,
  "demo": {"file": os.path.basename(demo), "copy_into": pkgdir, "run": f"go test -count=1 -run 'Test_?Seed' ./{pkgdir}/"},
  "confirmed_by_me": {
     "how": "seed_verify.sh in a scratch worktree: git apply patch.diff; go build ./...; go test -count=1 ./... (existing suite); demo with the change; git apply -R; demo without the change",
     "build_with_change": "ok",
     "existing_suite_with_change": "pass",
     "demo_with_change": "FAIL (as intended)",
     "demo_without_change": "pass",
     "demo_with_change_log_tail": tail(f"{src}/verify_demo_with.log"),
  },
}
json.dump(meta, open(f"{dst}/meta.json","w"), indent=1)
print("added", dst)
